"""C07 failures at trial points are survived and never accepted (fault enumeration)."""
import numpy as np

from harness.checklib import Check
from harness import gen, sweep
from pygradflow.params import StepSolverType


def baselines(n, seed):
    rng = np.random.default_rng(seed)
    out = []
    for i in range(n):
        fam = i % 3
        if fam == 0:
            ps = ("repo", ["hs71", "hs71c", "tame"][(i // 3) % 3])
        elif fam == 1:
            ps = ("convex_qp", int(rng.integers(0, 2 ** 31)), int(rng.integers(2, 5)), int(rng.integers(1, 3)), {"quad_rows": True})
        else:
            ps = ("boxdomain", int(rng.integers(0, 2 ** 31)), int(rng.integers(2, 4)), int(rng.integers(0, 2)), {})
        pk = gen.random_params(rng, iteration_limit=12, step_solver_type=gen.STEPSOLVERS[i % 4],
                               step_control_type=gen.CTLS[(i // 4) % 4], newton_type=gen.NEWTONS[(i // 2) % 4])
        if i % 3:
            pk["report_rcond"] = True
        if i % 4 == 1:
            pk["display_interval"] = None       # every row is displayed: the row's entries are evaluated at trial points too          # the condition estimator's solves are fault positions as well
        out.append({"prob": ps, "params": pk})
    return out


def main():
    chk = Check("C07", level="fault_enumeration")
    chk.nontrivial = lambda info: info.get("nfault", 0) >= 1      # the injected failure was actually reached
    chk.mc("GF_small.cfg" if chk.thorough else "GF_q_small.cfg")
    nb = 48 if chk.thorough else 12
    base = baselines(nb, chk.seed)
    res = sweep.run_groups([{"tag": "C07.base", "runs": [b]} for b in base])
    rng = np.random.default_rng(chk.seed + 7)
    gs = []
    for b, r in zip(base, res):
        if "error" in r:
            chk.machinery.append("baseline: " + r["error"][-800:])
            continue
        nev = sum(1 for e in r["events"] if e["ev"] == "Eval")
        nlin = sum(1 for e in r["events"] if e["ev"] == "Lin")
        ks = list(range(nev)) if chk.thorough else sorted(set(list(range(0, min(nev, 14))) + list(range(14, nev, max(1, nev // 10)))))
        for k in ks:
            gs.append({"tag": "C07.eval", "runs": [dict(b, fault=("transient", None, k, ["nan", "inf"][k % 2]))]})
        ls = list(range(nlin)) if chk.thorough else sorted(set(list(range(0, min(nlin, 8))) + list(range(8, nlin, max(1, nlin // 6)))))
        for k in ls:
            gs.append({"tag": "C07.lin", "runs": [dict(b, lin_fault=("lin", None, k))]})
        # a component undefined exactly at the starting point: the dedicated initial-point error, whatever the component
        comps = ["obj", "obj_grad", "cons", "cons_jac", "lag_hess"]
        for comp in (comps if chk.thorough else [comps[len(gs) % 5], "lag_hess"]):
            gs.append({"tag": "C07.atstart", "runs": [dict(b, fault=("atstart", comp, ["nan", "inf"][len(gs) % 2]))]})
        for t in range(3 if chk.thorough else 1):
            gs.append({"tag": "C07.region", "runs": [dict(b, fault=("region", 0, float(rng.uniform(-1.0, 2.0)),
                                                                   [None, "obj", "cons", "lag_hess"][(t + len(gs)) % 4], "nan"))]})
    chk.tv(gs, "C07 fault injection")
    chk.assumptions += ["faults are non-finite values (NaN / +inf) in a callback result and LinearSolverError at factorisation or solve; "
                        "wrong-but-finite values are out of scope", "validate_input is on (the default)"]
    return chk.finish(rule="for each baseline run the numbered sequence of callback evaluations and of factorisations/solves is recorded, "
                           "then one run per position with a transient failure there, plus region-persistent failures; every trace is validated; "
                           "distinct_nontrivial counts distinct (baseline, fault position) runs in which the injected failure was reached",
                      extra_cov={"fault_positions": len(gs)})
