SPECIFICATION Spec
INVARIANT C19_CorrectPasses
INVARIANT C19_Pinpoint
INVARIANT C19_NoCheckNoWork
INVARIANT C19_BelowToleranceIgnored
CHECK_DEADLOCK FALSE
