"""Run groups of real solves under the recorder, batch them, validate with TLC, attribute notes."""
import concurrent.futures as cf
import json
import logging
import os
import tempfile
import time
import traceback

import numpy as np

from harness import gen, project, tlc
from harness.record import MachineryError, Recorder, RecordingProblem, TracedSolver


def build_problem(ps):
    kind = ps[0]
    if kind == "repo":
        return gen.repo_instance(ps[1])
    seed = ps[1]
    rng = np.random.default_rng(seed)
    if kind == "convex_qp":
        _, _, n, m, kw = ps
        return gen.convex_qp(rng, n, m, **kw)
    if kind == "boxdomain":
        _, _, n, m, kw = ps
        return gen.boxdomain_problem(rng, n, m, **kw)
    if kind == "banded":
        _, _, n, m, kw = ps
        return gen.banded_qp(rng, n, m, **kw)
    if kind == "degenerate":
        return gen.degenerate_problem(rng, ps[2])
    if kind == "saddle":
        return gen.saddle_problem(rng, ps[2], ps[3])
    if kind == "simplex":
        return gen.simplex_qp(rng, ps[2])
    if kind == "boxlp":
        return gen.boxlp_problem(rng, ps[2])
    if kind == "narrowrow":
        return gen.narrowrow_problem(rng, float(ps[2]))
    if kind == "expgrowth":
        return gen.expgrowth_problem(rng, ps[2], cons=bool(ps[3]))
    if kind == "logdomain":
        return gen.logdomain_problem(rng, ps[2], cons=bool(ps[3]))
    if kind == "equalmult":
        return gen.equal_multiplier_problem(rng, ps[2])
    if kind == "infeasible":
        return gen.infeasible_problem(rng, ps[2])
    if kind == "unbounded":
        return gen.unbounded_problem(rng, ps[2])
    raise MachineryError("unknown problem spec %r" % (ps,))


def make_fault(fs, x0=None):
    """fs: None | ("transient", comp or None, k, val) | ("region", axis, thresh, comp or None, val) | ("atstart", comp, val)"""
    if fs is None:
        return None
    if fs[0] == "atstart":
        # the component is undefined exactly at the start point (a deterministic function of x, unlike "transient")
        _, comp, val = fs
        start = np.array(x0, dtype=float)

        def fault(c, total_idx, idx, x):
            xx = np.asarray(x, dtype=float)
            return val if (c == comp and xx.shape == start.shape and bool((xx == start).all())) else None

        return fault
    if fs[0] == "always":
        _, comp, val = fs

        def fault(c, total_idx, idx, x):
            return val if c == comp else None

        return fault
    if fs[0] == "transient":
        _, comp, k, val = fs

        def fault(c, total_idx, idx, x):
            if comp is None:
                return val if total_idx == k else None
            return val if (c == comp and idx == k) else None

        return fault
    if fs[0] == "region":
        _, axis, thresh, comp, val = fs

        def fault(c, total_idx, idx, x):
            if comp is not None and c != comp:
                return None
            return val if x[axis] > thresh else None

        return fault
    raise MachineryError("unknown fault spec")


def make_lin_fault(fs):
    if fs is None:
        return None
    _, op, k = fs

    def fault(o, idx):
        return idx == k and (op is None or o == op)

    return fault


def make_clock(cs):
    """cs: None (unit ticks) | ("tick", dt) | ("pattern", [increments...]) cyclic"""
    if cs is None:
        return 1.0, None
    if cs[0] == "tick":
        return float(cs[1]), None
    if cs[0] == "pattern":
        pat = list(cs[1])

        def sched(i, site):
            return pat[(i - 1) % len(pat)]

        return 1.0, sched
    raise MachineryError("unknown clock spec")


class _Observer:
    """A user callback that reads many cached attributes of both iterates (C09)."""

    def __init__(self):
        self.n = 0

    def __call__(self, it, nxt, accept):
        self.n += 1
        for o in (it, nxt):
            try:
                o.obj, o.cons_violation, o.stat_res, o.bound_violation, o.total_res  # noqa
            except Exception:
                pass


def run_group(gs):
    """gs: dict(runs=[runspec...], tag=...).  Returns dict(events, info)."""
    from pygradflow.log import logger
    from pygradflow.params import Params

    rec = Recorder()
    solvers = {}
    info = {"tag": gs.get("tag"), "runs": []}
    if not logger.handlers:
        logger.addHandler(logging.NullHandler())
    logger.propagate = False
    for rs in gs["runs"]:
        run = rs.get("run", "A")
        prob, x0, pinfo = build_problem(rs["prob"])
        if rs.get("x0") is not None:
            x0 = np.asarray(rs["x0"], dtype=float)
        y0 = rs.get("y0", None)
        if y0 is None:
            y0 = np.zeros(prob.num_cons)
        y0 = np.asarray(y0, dtype=float)
        if rs.get("y0scale") is not None:
            y0 = np.full(prob.num_cons, float(rs["y0scale"])) * np.where(np.arange(prob.num_cons) % 2 == 0, 1.0, -1.0)
        if rs.get("x0_shift"):
            x0 = np.clip(x0 + float(rs["x0_shift"]), prob.var_lb, prob.var_ub)
        if rs.get("x0_on_bounds"):
            x0 = np.where(np.isfinite(prob.var_lb), prob.var_lb, np.where(np.isfinite(prob.var_ub), prob.var_ub, x0))
        pk = dict(rs.get("params", {}))
        if rs.get("x0_outside"):
            # a user-supplied start outside the variable box (the only iterate the solver never projects)
            d = float(rs["x0_outside"])
            if d > 0:
                x0 = np.where(np.isfinite(prob.var_lb), prob.var_lb - d, np.where(np.isfinite(prob.var_ub), prob.var_ub + d, x0))
            else:       # negative: beyond the upper bounds first
                x0 = np.where(np.isfinite(prob.var_ub), prob.var_ub - d, np.where(np.isfinite(prob.var_lb), prob.var_lb + d, x0))
        if rs.get("obj_limit_at_start"):
            pk["obj_lower_limit"] = float(prob.obj(x0)) + float(rs["obj_limit_at_start"])
        level = getattr(logging, rs.get("loglevel", "WARNING"))
        logger.setLevel(level)
        tick, sched = make_clock(rs.get("clock"))
        same = rs.get("same_solver_as")
        status = "?"
        try:
            if same is not None:
                solver = solvers[same]
                solver._run = run
                solver._twin = rs.get("twin", "none")
                solver._algkey = rs.get("algkey", 1)
                if isinstance(solver.user_problem, RecordingProblem):
                    solver.user_problem.fault = make_fault(rs.get("fault"), x0)
            else:
                if rs.get("same_problem_as") is not None:
                    rp = solvers[rs["same_problem_as"]].user_problem      # the very same problem object, another solver
                    rp.fault = make_fault(rs.get("fault"), x0)
                else:
                    rp = RecordingProblem(prob, policy=rs.get("policy", "fresh"), fault=make_fault(rs.get("fault"), x0))
                scaling = rs.get("scaling")
                if scaling is not None:
                    from pygradflow.scale import Scaling

                    if scaling[0] == "objonly":
                        scaling = (np.zeros(prob.num_vars, dtype=int), np.zeros(prob.num_cons, dtype=int), int(scaling[1]))
                    elif scaling[0] == "signed":
                        # all variable weights of one sign (and not all zero), constraint / objective weights free
                        srng = np.random.default_rng(scaling[1])
                        wmax, sign = int(scaling[2]), int(scaling[3])
                        vw = sign * srng.integers(0, wmax + 1, size=prob.num_vars)
                        if not vw.any():
                            vw[int(srng.integers(0, prob.num_vars))] = sign
                        scaling = (vw, srng.integers(-wmax, wmax + 1, size=prob.num_cons), int(srng.integers(-wmax, wmax + 1)))
                    elif scaling[0] == "random":
                        srng = np.random.default_rng(scaling[1])
                        w = int(scaling[2])
                        scaling = (srng.integers(-w, w + 1, size=prob.num_vars), srng.integers(-w, w + 1, size=prob.num_cons),
                                   int(srng.integers(-w, w + 1)))
                    vw, cw, ow = scaling
                    sc = Scaling(np.array(vw, dtype=int), np.array(cw, dtype=int), int(ow))
                    rp.own("var_weights", sc.var_weights)
                    rp.own("cons_weights", sc.cons_weights)
                    pk["scaling"] = sc
                    from pygradflow.params import ScalingType

                    pk["scaling_type"] = ScalingType.Custom
                if pk.get("scaling_type") is not None and "scaling_primal" not in pk and scaling is None:
                    from pygradflow.params import ScalingType

                    if pk["scaling_type"] not in (ScalingType.NoScaling, ScalingType.Custom):
                        sp = np.array(x0, copy=True)
                        if rs.get("scaling_point_shift"):
                            sp = np.clip(sp + float(rs["scaling_point_shift"]), prob.var_lb, prob.var_ub)
                        pk["scaling_primal"] = sp
                        pk["scaling_dual"] = np.array(y0, copy=True)
                shared = rs.get("share_params_with")
                params = solvers[shared].params if shared is not None else Params(**pk)
                rec.run = run
                try:
                    solver = TracedSolver(
                        rp, params, rec, run=run, algkey=rs.get("algkey", 1), twin=rs.get("twin", "none"),
                        obj_id=len(solvers) + 1, clock_tick=tick, clock_schedule=sched,
                        record_callback=rs.get("record_callback", True),
                        extra_callbacks=[_Observer() for _ in range(rs.get("observers", 0))],
                    )
                except MachineryError:
                    raise
                except Exception as e:  # noqa: e.g. "Equilibration failed to converge" while computing a scaling
                    info["runs"].append({"run": run, "status": "construct-raise:" + type(e).__name__ + ":" + str(e)[:60],
                                         "n": int(prob.num_vars), "m": int(prob.num_cons)})
                    info["construct_failed"] = True
                    break
                solvers[run] = solver
            solver.lin_fault = make_lin_fault(rs.get("lin_fault"))
            solver._wellposed = bool(rs.get("wellposed", False))
            solver._start_undef = bool(rs.get("fault") and rs["fault"][0] == "atstart")
            try:
                om = rs.get("omit_start")      # "both" | "x" | "y": the start vectors the caller leaves out (defaults apply)
                res = solver.solve(None if om in ("both", "x") else np.array(x0, copy=True),
                                   None if om in ("both", "y") else np.array(y0, copy=True))
                status = res.status.name
            except MachineryError:
                raise
            except Exception as e:  # noqa: the Raise event has been logged by TracedSolver.solve
                status = "raise:" + type(e).__name__ + ":" + str(e)[:80]
                if not rec.events or rec.events[-1]["ev"] != "Raise":
                    raise MachineryError("exception outside solve(): " + traceback.format_exc())
        finally:
            logger.setLevel(logging.WARNING)
        info["runs"].append({"run": run, "status": status, "n": int(prob.num_vars), "m": int(prob.num_cons)})
    info["ntrials"] = sum(1 for e in rec.events if e["ev"] == "TrialEnd")
    info["naccept"] = sum(1 for e in rec.events if e["ev"] == "TrialEnd" and e["kind"] == "accept")
    info["nfail"] = sum(1 for e in rec.events if e["ev"] == "TrialEnd" and e["kind"] == "fail")
    info["nfault"] = sum(1 for e in rec.events if (e["ev"] == "Eval" and not e["ok"]) or (e["ev"] == "Lin" and e["raised"] != "none"))
    evs = project.project(rec)
    return {"events": evs, "info": info, "spec": gs}


class GroupTimeout(Exception):
    pass


def _alarm(signum, frame):
    raise GroupTimeout()


def _safe_run_group(gs):
    import signal

    old = None
    try:
        old = signal.signal(signal.SIGALRM, _alarm)
        signal.alarm(int(gs.get("timeout", 150)))
    except Exception:
        old = None
    try:
        return run_group(gs)
    except GroupTimeout:
        return {"error": "group timed out (a solve did not finish): " + json.dumps(_jsonable(gs))[:600], "spec": gs}
    except Exception:
        return {"error": traceback.format_exc(), "spec": gs}
    finally:
        try:
            signal.alarm(0)
            if old is not None:
                signal.signal(signal.SIGALRM, old)
        except Exception:
            pass


def run_groups(gspecs, workers=14):
    if workers <= 1 or len(gspecs) < 4:
        return [_safe_run_group(g) for g in gspecs]
    with cf.ProcessPoolExecutor(max_workers=workers) as ex:
        return list(ex.map(_safe_run_group, gspecs, chunksize=max(1, len(gspecs) // (workers * 4))))


class BatchResult:
    def __init__(self):
        self.groups = 0
        self.events = 0
        self.runs = 0
        self.notes = []  # dict(tid, line, tag, name, event, spec)
        self.errors = []
        self.statuses = {}
        self.tlc_states = 0
        self.wall_tlc = 0.0
        self.event_counts = {}
        self.samples = []
        self.infos = []

    def by_tag(self, tag):
        return [n for n in self.notes if n["tag"] == tag]


def validate_groups(results, keep_samples=2, chunk_events=60000):
    """results: outputs of run_groups.  Writes batches, validates, attributes notes to events."""
    br = BatchResult()
    good = []
    for r in results:
        if "error" in r:
            br.errors.append(r)
        else:
            good.append(r)
    chunks = []
    cur = []
    n = 0
    for r in good:
        cur.append(r)
        n += len(r["events"])
        if n >= chunk_events:
            chunks.append(cur)
            cur, n = [], 0
    if cur:
        chunks.append(cur)
    tmpd = tempfile.mkdtemp(prefix="gf_batch_")
    try:
        def one(ci_chunk):
            ci, chunk = ci_chunk
            path = os.path.join(tmpd, "b%d.ndjson" % ci)
            spans = project.write_batch([r["events"] for r in chunk], path)
            v = tlc.validate_trace(path)
            return chunk, spans, v

        with cf.ThreadPoolExecutor(max_workers=8) as ex:
            outs = list(ex.map(one, list(enumerate(chunks))))
        for chunk, spans, v in outs:
            br.tlc_states += (v["stats"] or {}).get("distinct", 0)
            br.wall_tlc += v["wall"]
            if v["last"] != v["total"]:
                br.errors.append({"error": "trace not fully consumed: %d of %d" % (v["last"], v["total"]),
                                  "spec": None})
            flat = []
            for r, (tid, first, last) in zip(chunk, spans):
                for k, e in enumerate(r["events"]):
                    flat.append((r, e))
            for (line, tag, name) in v["notes"]:
                # a note's pos is the index of the event being consumed (Commit: the next event)
                idx = min(max(line, 1), len(flat)) - 1
                r, e = flat[idx]
                br.notes.append({"line": line, "tag": tag, "name": name, "event": e, "spec": r["spec"],
                                 "info": r["info"]})
            for r in chunk:
                br.groups += 1
                br.events += len(r["events"])
                for ri in r["info"]["runs"]:
                    br.runs += 1
                    st = ri["status"].split(":")[0] if not ri["status"].startswith("raise") else "raise"
                    br.statuses[st] = br.statuses.get(st, 0) + 1
                for e in r["events"]:
                    br.event_counts[e["ev"]] = br.event_counts.get(e["ev"], 0) + 1
                br.infos.append(dict(r["info"], _key=json.dumps(_jsonable(r["spec"]), sort_keys=True)[:2000]))
                if len(br.samples) < keep_samples:
                    br.samples.append({"spec": _jsonable(r["spec"]), "info": r["info"],
                                       "events_head": [_slim(e) for e in r["events"][:12]]})
    finally:
        import shutil

        shutil.rmtree(tmpd, ignore_errors=True)
    return br


def _slim(e):
    return {k: v for k, v in e.items() if k != "tabs"}


def _jsonable(o):
    if isinstance(o, dict):
        return {str(k): _jsonable(v) for k, v in o.items()}
    if isinstance(o, (list, tuple)):
        return [_jsonable(v) for v in o]
    if isinstance(o, np.ndarray):
        return o.tolist()
    if isinstance(o, (np.floating,)):
        return float(o)
    if isinstance(o, (np.integer,)):
        return int(o)
    if isinstance(o, (str, int, float, bool)) or o is None:
        return o
    return getattr(o, "name", str(o))


def _jsonable_spec(gs):
    return _jsonable(gs)
