"""C17 linear solvers return the solution or fail loudly (LinSolve.tla: oracle MC + outcome validation by TLC)."""
import json
import os
import tempfile

import numpy as np
import scipy.sparse as sps

from harness import tlc
from harness.checklib import Check
from pygradflow.linear_solver import LinearSolverError, linear_solver
from pygradflow.params import LinearSolverType

SC = 16
SOLVERS = {"LU": LinearSolverType.LU, "GMRES": LinearSolverType.GMRES, "MINRES": LinearSolverType.MINRES}


def observe(A, b, trans, solver, guess, fmt, rdtype=float):
    M = sps.coo_matrix(np.array(A, dtype=float)).asformat(fmt)
    sym = bool((np.array(A) == np.array(A).T).all())
    o = {"raised": "none", "stage": "none", "finite": True, "big": False, "X": [0] * len(A)}
    try:
        ls = linear_solver(M, SOLVERS[solver], symmetric=sym)
    except LinearSolverError:
        o.update(raised="LinearSolverError", stage="construct")
        return o
    except Exception as e:  # noqa
        o.update(raised=type(e).__name__, stage="construct")
        return o
    rhs = np.array(b, dtype=rdtype)      # "all right-hand sides": integer and single-precision arrays included
    kw = {}
    if guess != "none":
        Ae = np.array(A, dtype=float).T if trans else np.array(A, dtype=float)
        if guess == "zero":
            g = np.zeros(len(A))
        elif guess == "other":
            # warm start from the solution of the system in the *other* orientation (A x = b for a transposed solve)
            try:
                g = np.linalg.solve(Ae.T, rhs.astype(float))
            except np.linalg.LinAlgError:
                g = np.ones(len(A))
        else:
            try:
                g = np.linalg.solve(Ae, rhs)
            except np.linalg.LinAlgError:
                g = np.zeros(len(A))
        kw["initial_sol"] = lambda g=g: g.copy()
    try:
        x = ls.solve(rhs, trans=trans, **kw)
    except LinearSolverError:
        o.update(raised="LinearSolverError", stage="solve")
        return o
    except Exception as e:  # noqa
        o.update(raised=type(e).__name__, stage="solve")
        return o
    x = np.asarray(x, dtype=float)
    fin = bool(np.isfinite(x).all())
    o["finite"] = fin
    o["big"] = bool(fin and not (np.abs(x) < 2 ** 14).all())
    if fin and not o["big"]:
        o["X"] = [int(round(float(v) * 2 ** SC)) for v in x]
    return o


def random_systems(chk, n_sys, seed):
    """Exploration-grade part: larger random systems, float oracle."""
    rng = np.random.default_rng(seed)
    for k in range(n_sys):
        n = int(rng.integers(4, 40))
        U, _ = np.linalg.qr(rng.standard_normal((n, n)))
        V, _ = np.linalg.qr(rng.standard_normal((n, n)))
        sv = np.exp(rng.uniform(0, np.log(1e4), size=n))
        sym = k % 2 == 0
        A = (U * sv) @ (U.T if sym else V.T)
        if sym:
            A = 0.5 * (A + A.T)
            A = A * np.where(rng.uniform(size=n) < 0.3, -1.0, 1.0)[None, :] * 1.0
            A = 0.5 * (A + A.T)
        b = rng.standard_normal(n) * [1.0, 1.0, 1e4, 1e-5, 1e7, 1.0][k % 6]      # "all right-hand sides": magnitudes 1e-5 .. 1e7
        for solver in ("LU", "GMRES") + (("MINRES",) if sym else ()):
            for trans in (False, True):
                fmt = ("coo", "csr", "csc")[k % 3]
                try:
                    ls = linear_solver(sps.coo_matrix(A).asformat(fmt), SOLVERS[solver], symmetric=sym)
                    x = ls.solve(b, trans=trans)
                except LinearSolverError:
                    chk.case(("rand", k, solver, trans, "raised"))
                    if solver == "LU":
                        chk.kernel_violation(("lin.random.lu.raised", solver), {"n": n, "cond": float(sv.max() / sv.min())})
                    continue
                except Exception as e:  # noqa
                    chk.kernel_violation(("lin.random.exception", solver), {"n": n, "type": type(e).__name__})
                    continue
                Ae = A.T if trans else A
                res = np.abs(Ae @ x - b).max()
                scale = np.abs(Ae).sum(axis=1).max() * np.abs(x).max() + np.abs(b).max()
                chk.case(("rand", k, solver, trans))
                tol = 1e-11 * scale if solver == "LU" else (max(1e-5 * np.linalg.norm(b), 1e-8) * 1.01 if solver == "GMRES"
                                                            else 1e-4 * (np.linalg.norm(Ae, 2) * np.linalg.norm(x) + np.linalg.norm(b)))
                if not (np.isfinite(x).all() and res <= tol * (np.sqrt(n) if solver != "LU" else 1.0)):
                    chk.kernel_violation(("lin.random.residual", solver), {"n": n, "residual": float(res), "tol": float(tol), "trans": trans})
                    continue
                if solver != "LU" and k % 2 == (0 if trans else 1):
                    # warm start on a right-hand side of small magnitude: a guess 20% off the solution must be iterated on, the
                    # returned vector may not be worse than 10x the cold-start residual or 2e-2 |b| (MINRES: backward error, floor 1e-3)
                    bs = b * (1e-6 if (k // 2) % 2 == 0 else 1e3)       # ... and of large magnitude
                    try:
                        exact = np.linalg.solve(Ae, bs)
                        cold = ls.solve(bs, trans=trans)
                        warm = ls.solve(bs, trans=trans, initial_sol=lambda g=exact * 1.2: g.copy())
                    except LinearSolverError:
                        chk.case(("rand.warm", k, solver, trans, "raised"))
                        continue
                    if solver == "MINRES":
                        # MINRES states its tolerance as a backward error |r| / (|A| |x| + |b|)
                        nA = np.linalg.norm(Ae, 2)
                        rc = np.linalg.norm(Ae @ cold - bs) / (nA * np.linalg.norm(cold) + np.linalg.norm(bs))
                        rw = np.linalg.norm(Ae @ warm - bs) / (nA * np.linalg.norm(warm) + np.linalg.norm(bs))
                        floor = 1e-3
                    else:
                        rc = np.abs(Ae @ cold - bs).max() / np.abs(bs).max()
                        rw = np.abs(Ae @ warm - bs).max() / np.abs(bs).max()
                        floor = 2e-2
                    chk.case(("rand.warm", k, solver, trans))
                    if not (np.isfinite(warm).all() and rw <= max(10.0 * rc, floor)):
                        chk.kernel_violation(("lin.random.warmstart", solver), {"n": n, "relres_cold": float(rc), "relres_warm": float(rw), "trans": trans})
        if not sym:
            # one solver object reused for both orientations, in both orders: each solve answers its own system
            for solver in ("LU", "GMRES"):
                for order in ((False, True), (True, False)):
                    try:
                        ls = linear_solver(sps.coo_matrix(A).asformat(("coo", "csr", "csc")[k % 3]), SOLVERS[solver], symmetric=False)
                        sols = [(tr, ls.solve(b, trans=tr)) for tr in order]
                    except LinearSolverError:
                        chk.case(("rand.reuse", k, solver, order, "raised"))
                        continue
                    for tr, xs in sols:
                        Ae = A.T if tr else A
                        rr = np.abs(Ae @ xs - b).max() / np.abs(b).max()
                        chk.case(("rand.reuse", k, solver, order, tr))
                        if not (np.isfinite(xs).all() and rr <= (1e-7 if solver == "LU" else 1e-3)):
                            chk.kernel_violation(("lin.random.reused_solver", solver), {"n": n, "order": list(order), "trans": tr, "relres": float(rr)})
        if k % 2 == 0:
            # KKT-like symmetric indefinite matrix with tiny (non-zero) Hessian diagonal and O(1) coupling: moderate condition
            m = int(rng.integers(2, 8))
            Jq, _ = np.linalg.qr(rng.standard_normal((m, m)))
            Jm = Jq * np.exp(rng.uniform(0, np.log(30.0), size=m))
            eps = 10.0 ** rng.uniform(-14, -8, size=m)
            K = np.block([[np.diag(eps), Jm.T], [Jm, -np.diag(10.0 ** rng.uniform(-12, -6, size=m)) * (k % 4 == 0)]])
            bb = rng.standard_normal(2 * m)
            for symflag in (True, False):
                for trans in (False, True):
                    fmt = ("coo", "csr", "csc")[(k // 2) % 3]
                    try:
                        xk = linear_solver(sps.coo_matrix(K).asformat(fmt), SOLVERS["LU"], symmetric=symflag).solve(bb, trans=trans)
                    except LinearSolverError:
                        chk.kernel_violation(("lin.kkt.lu.raised", "LU"), {"m": m, "symmetric": symflag})
                        continue
                    Ke = K.T if trans else K
                    res = np.abs(Ke @ xk - bb).max()
                    scale = np.abs(Ke).sum(axis=1).max() * np.abs(xk).max() + np.abs(bb).max()
                    chk.case(("kkt", k, symflag, trans))
                    if not (np.isfinite(xk).all() and res <= 1e-11 * scale):
                        chk.kernel_violation(("lin.kkt.backward_error", "LU", symflag),
                                             {"m": m, "residual": float(res), "scale": float(scale), "symmetric": symflag, "trans": trans})
        if k % 5 == 0:   # structurally singular: an empty row
            As = A.copy()
            As[n // 2, :] = 0.0
            try:
                linear_solver(sps.csc_matrix(As), SOLVERS["LU"], symmetric=False).solve(b)
                chk.kernel_violation(("lin.random.singular.returned", "LU"), {"n": n})
            except LinearSolverError:
                chk.case(("rand", k, "LU", "singular"))
            except Exception as e:  # noqa
                chk.kernel_violation(("lin.random.singular.exception", "LU"), {"n": n, "type": type(e).__name__})


def main():
    chk = Check("C17")
    states = chk.mc_dump("LinSolve.cfg", "LinSolve.tla")
    if states is not None:
        recs = []
        fmts = ("coo", "csr", "csc")
        for si, st in enumerate(states):
            A = [list(r) for r in st["A"]]
            n = len(A)
            sym = st["facts"]["sym"]
            bs = ([[1, -2], [0, 1]] if n == 2 else [[1, -2, 1], [0, 0, 2]])
            if not chk.thorough:
                bs = bs[si % 2: si % 2 + 1]
            for b in bs:
                for solver in ("LU", "GMRES") + (("MINRES",) if sym else ()):
                    for trans in (False, True):
                        guesses = ("none", "zero", "exact", "other") if (chk.thorough or si % 3 == 0) else (("none", "exact", "other")[si % 3],)
                        for guess in guesses:
                            c = {"A": A, "b": b, "trans": trans, "solver": solver, "guess": guess}
                            o = observe(A, b, trans, solver, guess, fmts[(si + len(recs)) % 3], (float, np.int64, np.float32, float)[(si + len(recs) // 3) % 4])
                            recs.append({"c": c, "o": o})
                            chk.case((si, tuple(b), solver, trans, guess))
        d = tempfile.mkdtemp(prefix="gf_ls_")
        try:
            path = os.path.join(d, "ls.ndjson")
            with open(path, "w") as f:
                for r in recs:
                    f.write(json.dumps(r) + "\n")
            v = tlc.validate_trace(path, module="LinSolveTrace.tla", cfg="LinSolveTrace.cfg", envvar="LS_TRACE")
            chk.states += (v["stats"] or {}).get("distinct", 0)
            chk.transitions += len(recs)
            if v["last"] != v["total"]:
                chk.machinery.append("LinSolveTrace consumed %d of %d lines" % (v["last"], v["total"]))
            for (line, tag, name) in v["notes"]:
                r = recs[line - 1]
                chk.kernel_violation(("lin." + name, r["c"]["solver"], r["o"]["raised"], r["o"]["stage"]), {"case": r["c"], "observed": r["o"]})
        except tlc.TLCFailure as e:
            chk.machinery.append(str(e)[-1500:])
        finally:
            import shutil

            shutil.rmtree(d, ignore_errors=True)
        chk.traces += len(recs)
        chk.samples += recs[5:7]
    random_systems(chk, 300 if chk.thorough else 40, chk.seed)
    # the solvers inside real solves: every factorisation / solve of a sweep is a `Lin` event whose returned vector carries an
    # independent residual class (small double-precision systems of condition <= 1e6); families with exactly singular and
    # indefinite Newton matrices under all three linear solvers
    from harness import gen
    from harness.checks.common import family_spec
    from pygradflow.params import LinearSolverType, StepSolverType
    rng = np.random.default_rng(chk.seed + 17)
    gs = []
    for i in range(160 if chk.thorough else 24):
        ls = [LinearSolverType.GMRES, LinearSolverType.LU, LinearSolverType.MINRES][i % 3]
        ss = StepSolverType.Symmetric if ls == LinearSolverType.MINRES else gen.STEPSOLVERS[(i // 3) % 4]
        lam = float(2.0 ** int(rng.integers(-2, 3)))
        pk = gen.random_params(rng, iteration_limit=25, linear_solver_type=ls, step_solver_type=ss, lamb_init=lam,
                               report_rcond=bool(i % 4 == 1))
        ps = ("saddle", int(rng.integers(0, 2 ** 31)), int(rng.integers(2, 4)), lam) if i % 2 == 0 else family_spec(i, rng)
        gs.append({"tag": "C17.insolve", "runs": [{"prob": ps, "params": pk}]})
    chk.tv(gs, "C17 solvers inside solves")
    chk.assumptions += ["small cases: returned vectors are shipped as round(x*2^16) and the residual is computed by TLC in integers; tolerance "
                        "4 units (rounding) + 8 units for iterative solvers", "random larger systems (n<40, condition <= 1e4) are checked by a "
                        "float oracle: exploration-grade, as stated in DESIGN 6 C17"]
    return chk.finish(rule="all 625 integer 2x2 matrices + 538 structured 3x3 (KKT-like symmetric, unsymmetric sparse patterns incl. structurally "
                           "singular) x rhs x trans x {LU,GMRES,MINRES if symmetric} x initial guess x sparse format executed on the real "
                           "solvers; outcomes validated by TLC against OutcomeOK of LinSolve.tla", extra_cov={"exhaustive": True})
