"""C06 solve() ends with a status or a deliberate error, never an internal crash."""
import numpy as np

from harness.checklib import Check
from harness.checks.common import family_spec
from harness import gen
from pygradflow.params import Precision, ScalingType


def groups(n, seed):
    rng = np.random.default_rng(seed)
    gs = []
    for i in range(n):
        pk = gen.random_params(rng, iteration_limit=int(rng.integers(1, 40)))
        if i % 4 == 0:
            pk["precision"] = Precision.Single
        if i % 5 == 0:
            pk["report_rcond"] = True
        if i % 6 == 0:
            pk["display_interval"] = None
        if i % 3 == 1:
            pk["collect_path"] = True
        if i % 9 == 0:
            pk["scaling_type"] = [ScalingType.Nominal, ScalingType.GradJac, ScalingType.KKT][i % 3]
        if i % 11 == 0:
            pk["validate_input"] = False
        rs = {"prob": family_spec(i, rng), "params": pk, "loglevel": ["WARNING", "INFO", "WARNING"][i % 3]}
        if i % 8 == 1:
            rs["scaling"] = ("random", int(rng.integers(0, 2 ** 31)), 4)
        if i % 10 == 7:
            rs["x0_on_bounds"] = True
        gs.append({"tag": "C06", "runs": [rs]})
    return gs


def main():
    chk = Check("C06")
    chk.mc("GF_small.cfg" if chk.thorough else "GF_q_small.cfg")
    chk.tv(groups(4000 if chk.thorough else 160, chk.seed), "C06 sweep")
    return chk.finish(rule="randomised sweep of the configuration product (Newton x step solver x linear solver x controller x "
                           "penalty x active-set rule x scaling x precision x reporting) over feasible, infeasible, unbounded and "
                           "degenerate families; every Raise event is classified into the four deliberate kinds or Internal")
