"""C01 Optimal status implies first-order optimality of the user's own problem."""
import json
import os
import tempfile

import numpy as np
import scipy.sparse as sps

from harness import gen, oracle, tlc
from harness.checklib import Check
from harness.checks.common import family_spec
from pygradflow.integration.integration_solver import IntegrationSolver
from pygradflow.params import Params, ScalingType
from pygradflow.problem import Problem
from pygradflow.status import SolverStatus


def groups(n, seed):
    rng = np.random.default_rng(seed)
    gs = []
    kinds_cycle = [["eq0", "lower"], ["eq", "ranged"], ["upper", "ranged", "eq0"], ["lower", "upper"], ["eq"], [],
                   ["narrow"], ["narrow", "eq0"], ["ranged", "narrow"]]
    for i in range(n):
        if i % 5 == 0:
            ps = ("repo", ["hs71", "hs71c", "tame", "rosenbrock"][(i // 5) % 4])
        else:
            kinds = kinds_cycle[i % len(kinds_cycle)]
            ps = ("convex_qp", int(rng.integers(0, 2 ** 31)), int(rng.integers(max(2, len(kinds) + 1), 7)), len(kinds),
                  {"row_kinds": kinds, "fmt": ("coo", "csr", "csc")[i % 3], "quad_rows": bool(i % 4 == 3)})
        pk = gen.random_params(rng, iteration_limit=150)
        if pk["newton_type"].name == "Globalized" and i % 2:
            pk["newton_type"] = gen.NEWTONS[i % 3]
        rs = {"prob": ps, "params": pk}
        sc = i % 6
        if sc in (1, 2):
            rs["scaling"] = ("random", int(rng.integers(0, 2 ** 31)), 3)
        elif sc == 3:
            pk["scaling_type"] = [ScalingType.Nominal, ScalingType.GradJac, ScalingType.KKT][(i // 6) % 3]
        elif sc == 4:
            rs["scaling"] = ("objonly", int([3, -2, 1, -4][(i // 6) % 4]))       # only the objective is rescaled
        gs.append({"tag": "C01", "runs": [rs]})
    return gs


class BoxQP(Problem):
    def __init__(self, Q, c, lb, ub):
        self.Q, self.c = Q, c
        super().__init__(lb, ub, num_cons=0)

    def obj(self, x):
        return float(0.5 * x @ self.Q @ x + self.c @ x)

    def obj_grad(self, x):
        return self.Q @ x + self.c

    def lag_hess(self, x, y):
        return sps.csr_matrix(self.Q)


def integration_cases(n, seed):
    rng = np.random.default_rng(seed)
    out = []
    for name in ("tame", "hs71"):
        p, x0, _ = gen.repo_instance(name)
        out.append((name, p, x0, np.zeros(p.num_cons)))
    for k in range(n):
        m = int(rng.integers(1, 4))
        Q = gen.random_spd(rng, m, cond=20.0)
        xs = rng.uniform(-2, 2, size=m)
        lb = np.where(rng.uniform(size=m) < 0.5, -1.0, -np.inf)
        ub = np.where(rng.uniform(size=m) < 0.5, 1.0, np.inf)
        x0 = np.clip(rng.uniform(-3, 3, size=m), lb, ub)
        out.append(("boxqp%d" % k, BoxQP(Q, -Q @ xs, lb, ub), x0, np.zeros(0)))
    return out


def main():
    chk = Check("C01")
    chk.mc("KKTAbsMC.cfg", module="KKTAbsMC.tla")
    chk.mc("KKTAbsMC_witness.cfg", module="KKTAbsMC.tla", must_violate="SomeInternalKKT")
    chk.mc("IntegrationLoop.cfg", module="IntegrationLoop.tla")
    chk.mc("GF_small.cfg" if chk.thorough else "GF_q_small.cfg")
    br = chk.tv(groups(1500 if chk.thorough else 110, chk.seed), "C01 sweep")
    nopt = br.statuses.get("Optimal", 0)
    if nopt < 20:
        chk.machinery.append("only %d Optimal returns in the sweep: the KKT clause would be vacuous" % nopt)
    # the flow-integration solver: every run is recorded (loop tops with the residuum test, integrations, result) and
    # validated by TLC against IntegrationLoop.tla / UserKKT
    from harness.record_integration import TracedIntegrationSolver, events_of
    recs = []
    nint = 0
    for k, (name, prob, x0, y0) in enumerate(integration_cases(60 if chk.thorough else 10, chk.seed)):
        params = Params(iteration_limit=[200, 3, 1, 200][k % 4], rho=1e-2)
        sol = TracedIntegrationSolver(prob, params)
        try:
            res = sol.solve(x0, y0)
        except Exception as e:  # noqa: robustness of the second solver is not part of C01
            chk.case(("integration", name, "raise:" + type(e).__name__))
            continue
        chk.case(("integration", name, res.status.name, int(res.iterations)))
        evs = events_of(sol, res, prob, params)
        for e in evs:
            e["name"] = name
        recs.extend(evs)
        nint += 1
    if recs:
        d = tempfile.mkdtemp(prefix="gf_ig_")
        try:
            path = os.path.join(d, "ig.ndjson")
            with open(path, "w") as f:
                for r in recs:
                    f.write(json.dumps(r) + "\n")
            v = tlc.validate_trace(path, module="IntegrationTrace.tla", cfg="IntegrationTrace.cfg", envvar="IG_TRACE")
            if v["last"] != v["total"]:
                chk.machinery.append("IntegrationTrace consumed %d of %d" % (v["last"], v["total"]))
            for (line, tag, cname) in v["notes"]:
                r = recs[line - 1]
                if tag == "P:C01":
                    chk.kernel_violation(("integration." + cname, r["name"]), r)
                elif tag == "M":
                    chk.drift["integration." + cname] = chk.drift.get("integration." + cname, 0) + 1
                else:
                    chk.other_notes[tag + ":integration." + cname] = chk.other_notes.get(tag + ":integration." + cname, 0) + 1
            chk.traces += nint
            chk.cov["integration_events"] = len(recs)
            chk.samples.append({"integration_trace_head": recs[:6]})
        except tlc.TLCFailure as e:
            chk.machinery.append(str(e)[-1200:])
        finally:
            import shutil

            shutil.rmtree(d, ignore_errors=True)
    chk.assumptions += ["user-level tolerances: rows (opt_tol + active_tol) * 2^-cw, multipliers opt_tol * 2^(cw-ow), stationarity "
                        "opt_tol * 2^(vw-ow), each with 1e-9 relative re-evaluation slack; d must be exactly zero off active bounds",
                        "Double precision only"]
    return chk.finish(rule="KKTAbs.tla: InternalKKT => UserKKT for all 6912 internal class combinations (design theorem); every Optimal "
                           "Return of a sweep over scalings x row kinds x Newton/step/linear solver x controller x penalty carries oracle "
                           "classes of the user's problem at (x,y,d) and is held to UserKKT by TLC; IntegrationLoop.tla + KKT validation of "
                           "IntegrationSolver's Optimal results", extra_cov={"optimal_returns": nopt})
