"""Group-spec builders shared by several property checks."""
import numpy as np

from harness import gen
from pygradflow.params import (LinearSolverType, NewtonType, PenaltyUpdate, ScalingType, StepControlType,
                               StepSolverType)


def family_spec(i, rng, fmts=("coo", "csr", "csc")):
    # the family is drawn, not derived from the group index: callers choose their parameter modes by `i % k`, and a
    # periodic family would pair each mode with the same few families for every seed
    fam = int(rng.integers(0, 6))
    if fam == 0:
        return ("repo", ["hs71", "hs71c", "tame", "rosenbrock"][int(rng.integers(0, 4))])
    if fam in (1, 5):
        return ("convex_qp", int(rng.integers(0, 2 ** 31)), int(rng.integers(2, 6)), int(rng.integers(0, 4)),
                {"fmt": fmts[int(rng.integers(0, len(fmts)))], "quad_rows": bool(fam == 5)})
    if fam == 2:
        return ("boxdomain", int(rng.integers(0, 2 ** 31)), int(rng.integers(2, 5)), int(rng.integers(0, 3)), {})
    if fam == 3:
        return ("infeasible", int(rng.integers(0, 2 ** 31)), 3)
    return ("unbounded", int(rng.integers(0, 2 ** 31)), 3)


def mixed_groups(n, seed, tag, limit=60, fixed=None, collect=None):
    rng = np.random.default_rng(seed)
    out = []
    pw = gen.pairwise_params(seed)
    for i in range(n):
        pk = gen.random_params(rng, iteration_limit=limit, obj_lower_limit=-1e4)
        if i < len(pw):
            pk.update(pw[i])
            if pk["step_solver_type"] != StepSolverType.Symmetric and pk["linear_solver_type"] == LinearSolverType.MINRES:
                pk["linear_solver_type"] = LinearSolverType.LU
        pk["collect_path"] = bool(i % 2) if collect is None else collect
        if fixed:
            pk.update(fixed)
        out.append({"tag": tag, "runs": [{"prob": family_spec(i, rng), "params": pk}]})
    return out
