"""spec -> code: replays behaviours of MCGradFlow (TLC -simulate) through the REAL Solver.solve.

Everything below solve() is scripted from the behaviour: the step controller returns exactly the trial outcomes
the behaviour prescribes, iterates realise the prescribed observations (optimal / infeasible / unbounded flags,
multiplier norms, filter entries), the clock expires at the prescribed read.  Everything *in* solve() is real:
the order of the termination tests, the lamb_max abort, callbacks, the penalty veto, the commit, counters, path,
model times, the result.  The replayed run is recorded and validated like any other trace, and its outcome is
compared with the behaviour's final state.
"""
import glob
import os
import shutil
import subprocess
import tempfile

import numpy as np
import scipy.sparse as sps

import pygradflow.solver as solver_mod
from harness import project, tlaparse
from harness.record import Recorder, TracedSolver
from harness.tlc import SPEC_DIR
from pygradflow.iterate import Iterate
from pygradflow.params import Params, PenaltyUpdate, StepControlType
from pygradflow.problem import Problem
from pygradflow.step.step_control import StepControlResult

PEN = {"Constant": PenaltyUpdate.Constant, "DualNorm": PenaltyUpdate.DualNorm, "ObjFilter": PenaltyUpdate.ObjectiveFilter}
CTL = {"Exact": StepControlType.Exact, "Fixed": StepControlType.Fixed, "ResRatio": StepControlType.ResiduumRatio,
       "DistRatio": StepControlType.DistanceRatio}


NEEDED = {"pc", "cfg", "hist", "orc", "inner", "disp", "post", "trial", "pen", "filt", "rho", "prho", "err", "result"}


def simulate(cfg, num, depth, seed, module="MCGradFlow.tla"):
    d = tempfile.mkdtemp(prefix="gf_sim_")
    try:
        workers = 8
        cmd = ["tlc", "-simulate", "file=%s/tr,num=%d" % (d, max(1, num // workers)), "-depth", str(depth), "-workers", str(workers),
               "-seed", str(seed),
               "-metadir", os.path.join(d, "meta"), "-noGenerateSpecTE", "-config", cfg, module]
        env = dict(os.environ)
        env["JAVA_TOOL_OPTIONS"] = (env.get("JAVA_TOOL_OPTIONS", "") + " -Djava.io.tmpdir=" + d).strip()
        p = subprocess.run(cmd, cwd=SPEC_DIR, env=env, stdout=subprocess.PIPE, stderr=subprocess.STDOUT, text=True, timeout=1200)
        files = sorted(glob.glob(os.path.join(d, "tr_*")))
        out = []
        for f in files:
            try:
                out.append(tlaparse.parse_dump(f, only=NEEDED))
            except Exception:
                pass
        return out, p.stdout
    finally:
        shutil.rmtree(d, ignore_errors=True)


def lamb_val(r):
    return float(2.0 ** r)


def rho_val(r):
    return 0.0 if r <= 0 else float(10.0 ** (r - 1))


class Stub(Problem):
    def __init__(self):
        super().__init__(np.array([-1e6]), np.array([1e6]), num_cons=1)

    def obj(self, x):
        return 0.0

    def obj_grad(self, x):
        return np.zeros(1)

    def cons(self, x):
        return np.zeros(1)

    def cons_jac(self, x):
        return sps.coo_matrix(np.ones((1, 1)))

    def lag_hess(self, x, y):
        return sps.coo_matrix(np.ones((1, 1)))


class ScriptedIterate(Iterate):
    """Point `pt` of a behaviour: x = [pt], y = [ynorm]; observations are prescribed."""

    def __init__(self, problem, params, evaluator, pt, script):
        self._pt = pt
        self._script = script
        super().__init__(problem, params, np.array([float(pt)]), np.array([script.yval(pt)]), evaluator)

    def _obs(self):
        return self._script.obs.get(self._pt, {"opt": False, "infeas": False, "unb": False})

    @property
    def total_res(self):
        return 0.0 if self._obs()["opt"] else 1.0

    def locally_infeasible(self, feas_tol, local_infeas_tol):
        return bool(self._obs()["infeas"])

    @property
    def obj(self):
        return -2e9 if self._obs()["unb"] else self._script.entry.get(self._pt, (0.0, 0.0))[0]

    def is_feasible(self, tol):
        return True

    @property
    def cons_violation(self):
        return self._script.entry.get(self._pt, (0.0, 0.0))[1]

    @property
    def stat_res(self):
        return self.total_res

    @property
    def bound_violation(self):
        return 0.0

    def check_eval(self):
        return None


class Script:
    """Everything the environment decides in one behaviour."""

    def __init__(self, states):
        self.states = states
        fin = states[-1]
        self.cfg = fin["cfg"]["A"]
        self.final = fin
        self.trials = list(fin["hist"]["A"])
        self.obs = {}
        for k, v in fin["orc"].items():
            if isinstance(k, tuple) and len(k) == 3 and k[1] == "obs":
                self.obs[k[2]] = v
        self.reads_inner = []     # per trial: number of inner clock reads
        self.disps = []
        self.entry = {}
        self.ynorm = {0: 0}
        prev = None
        for st in states:
            if prev is not None:
                a, b = prev["pc"]["A"], st["pc"]["A"]
                if a == "InTrial" and b == "Post":
                    self.reads_inner.append(prev["inner"]["A"]["rd"])
                if a == "Disp" and b == "Begin":
                    self.disps.append(st["disp"]["A"])
                if (not prev["post"]["A"]["p"]) and st["post"]["A"]["p"]:
                    pt = st["trial"]["A"]["pt"]
                    self.ynorm[pt] = st["pen"]["A"]["ynorm"]
                    if self.cfg["pen"] == "ObjFilter":
                        self.entry[pt] = tuple(float(v) for v in st["pen"]["A"]["entry"])
            prev = st

    def yval(self, pt):
        return rho_val(self.ynorm.get(pt, 0))

    def usable(self):
        c = self.cfg
        if c.get("ctl") not in CTL or c.get("pen") not in PEN:
            return False
        if self.final["pc"]["A"] not in ("Done", "Raised"):
            return False
        if self.final["err"]["A"] in ("InitEval", "DerivCheck"):
            return False
        if any(v is None for v in self.entry.values()):
            return False            # a refused filter insertion does not reveal its pair in the state sequence
        if c["pen"] == "ObjFilter" and any(o["unb"] for o in self.obs.values()):
            return False
        if any(st["rho"]["A"] >= 5 or st["prho"]["A"] >= 5 for st in self.states):
            return False
        return True


class ScriptedController:
    def __init__(self, problem, params, solver, script):
        self.problem = problem
        self.params = params
        self.solver = solver
        self.script = script
        self.k = 0

    def _verif_inner_read(self, timer):
        return timer.reached_time_limit()

    def compute_step(self, iterate, rho, dt, display, timer):
        sc = self.script
        if self.k >= len(sc.trials):
            raise RuntimeError("loopdriver: the code asks for trial %d but the behaviour has only %d" % (self.k + 1, len(sc.trials)))
        t = sc.trials[self.k]
        nreads = sc.reads_inner[self.k] if self.k < len(sc.reads_inner) else 0
        self.k += 1
        for _ in range(nreads):
            self._verif_inner_read(timer)
        lamb_next = lamb_val(t["lambNext"])
        if t["kind"] == "fail":
            return StepControlResult(iterate, lamb_next, None, None, False)
        nxt = self.solver._scripted_iterate(t["pt"])
        return StepControlResult(nxt, lamb_next, None, None, t["kind"] == "accept")


class ReplaySolver(TracedSolver):
    def __init__(self, script, rec):
        self._script = script
        c = script.cfg
        maxval = c["lambMax"]
        pk = dict(step_control_type=CTL[c["ctl"]], penalty_update=PEN[c["pen"]], lamb_init=lamb_val(c["lambInit"]),
                  lamb_min=lamb_val(c["lambMin"]), lamb_max=lamb_val(maxval), rho=rho_val(c["rho0"]),
                  iteration_limit=None if c["limit"] < 0 else int(c["limit"]), collect_path=bool(c["collectPath"]),
                  time_limit=float("inf") if c["deadline"] < 0 else float(c["deadline"]),
                  display_interval={"never": 1e9, "always": None, "clock": 0.5}[c["display"]], obj_lower_limit=-1e9)
        self._disp_k = 0
        super().__init__(Stub(), Params(**pk), rec, run="A", record_callback=bool(c["ncb"] > 0),
                         clock_schedule=self._clock)
        self.transform.create_transformed_iterate = lambda x0, y0: self._scripted_iterate(0)

    def _verif_resclass(self, it0, it1, rho, dt):
        return "le"      # scripted world: the Newton residual is not a real quantity here

    def _clock(self, i, site):
        # only reads that exist in the model advance the time (unit ticks)
        return 1.0 if site in ("terminate", "inner", "display") else 0.0

    def _scripted_iterate(self, pt):
        return ScriptedIterate(self.problem, self.params, self.transform.evaluator, pt, self._script)

    def _make_controller(self, orig):
        solver = self

        def factory(problem, params):
            return ScriptedController(problem, params, solver, solver._script)

        return factory

    def _make_display(self, orig):
        inner = super()._make_display(orig)
        solver = self

        def factory(problem, params):
            disp = inner(problem, params)
            if solver._script.cfg["display"] != "clock":
                return disp
            rec_should = disp.should_display

            def should_display():
                sc = solver._script
                d = sc.disps[solver._disp_k] if solver._disp_k < len(sc.disps) else False
                solver._disp_k += 1
                disp.interval = -1.0 if d else 1e18     # the real decision, steered to the prescribed value
                return rec_should()

            disp.should_display = should_display
            return disp

        return factory


def replay(states):
    """Returns (projected events, mismatch description or None, info) for one behaviour, or None if unusable."""
    sc = Script(states)
    if not sc.usable():
        return None
    rec = Recorder()
    rec.scripted = True
    solver = ReplaySolver(sc, rec)
    outcome = None
    try:
        res = solver.solve(np.array([0.0]), np.array([sc.yval(0)]))
        outcome = ("Done", res.status.name, int(res.iterations), int(res.num_accepted_steps), float(res.x[0]))
    except RuntimeError as e:
        if "loopdriver" in str(e):
            outcome = ("Diverged", str(e))
        else:
            raise
    except Exception as e:  # noqa
        outcome = ("Raised", rec.events[-1].get("kind") if rec.events and rec.events[-1]["ev"] == "Raise" else type(e).__name__)
    fin = sc.final
    if fin["pc"]["A"] == "Done":
        r = fin["result"]["A"]
        expected = ("Done", r["status"], r["iterations"], r["accepted"], float(r["x"]))
    else:
        expected = ("Raised", fin["err"]["A"])
    mismatch = None if outcome == expected else {"expected": expected, "observed": outcome}
    evs = project.project(rec) if rec.events and rec.events[-1]["ev"] in ("Return", "Raise") else None
    return evs, mismatch, {"cfg": {k: v for k, v in sc.cfg.items()}, "trials": len(sc.trials), "expected": expected}
