-------------------------- MODULE IntegrationLoop --------------------------
(***************************************************************************)
(* C01 (second solver): control structure of IntegrationSolver.solve.      *)
(*                                                                         *)
(* State: the loop position, the iteration counter, the penalty level, the *)
(* set `free` of variables the projected flow may move (the code's boolean *)
(* `filter`; FlowFilter.tla specifies how it is computed at a point) and   *)
(* the outcome of the last integration.  The environment decides the       *)
(* residuum class at each loop top and which terminal event ends each      *)
(* integration; Optimal is reachable only through "residuum <= opt_tol"    *)
(* at the loop top or a Converged event.                                   *)
(*                                                                         *)
(* One integration ends with                                               *)
(*   Converged / Unbounded  -> the solve ends;                             *)
(*   Event     -> exactly one variable changes sides: a free variable hit  *)
(*                a bound (LB/UB) and is pinned, or the flow direction of  *)
(*                a pinned variable changed sign (GRAD_FIXED) and it is    *)
(*                released;                                                *)
(*   Penalty   -> the penalty is multiplied by ten (never lowered) and the *)
(*                free set is recomputed from scratch for the new penalty; *)
(*   Finished  -> the integrator ran to its horizon: nothing changes.      *)
(***************************************************************************)
EXTENDS Integers, FiniteSets

CONSTANTS Limit, MaxRhoLev, Vars

VARIABLES pc, iter, lev, status, why, dl, free, last

vars == <<pc, iter, lev, status, why, dl, free, last>>

NoEvent == [res |-> "none", trig |-> "none", j |-> 0]

Init == /\ pc = "Top" /\ iter = 0 /\ lev = 0 /\ status = "none" /\ why = "none" /\ dl \in BOOLEAN
        /\ free \in SUBSET Vars /\ last = NoEvent

TopCtl ==
  /\ pc = "Top"
  /\ \/ /\ status' = "Optimal" /\ why' = "residuum" /\ pc' = "Done"                 \* curr_res <= opt_tol
     \/ /\ dl /\ status' = "TimeLimit" /\ why' = "deadline" /\ pc' = "Done"
     \/ /\ ~dl /\ status' = "LocallyInfeasible" /\ why' = "infeasible" /\ pc' = "Done"
     \/ /\ ~dl /\ status' = "Unbounded" /\ why' = "objlimit" /\ pc' = "Done"
     \/ /\ ~dl /\ status' = "none" /\ why' = why /\ pc' = "Integrate"
  /\ UNCHANGED <<iter, lev, dl, last>>
Top == TopCtl /\ UNCHANGED free

(* the effect of one integration outcome on the free set *)
Flip(S, j) == IF j \in S THEN S \ {j} ELSE S \cup {j}
TrigOK(S, trig, j) == CASE trig \in {"LB", "UB"} -> j \in S
                        [] trig = "GRAD_FIXED" -> j \notin S
                        [] OTHER -> FALSE

Outcome(res, trig, j, nfree) ==
  /\ iter' = iter + 1
  /\ last' = [res |-> res, trig |-> trig, j |-> j]
  /\ lev' = IF res = "Penalty" /\ lev < MaxRhoLev THEN lev + 1 ELSE lev
  /\ free' = (CASE res = "Event" -> Flip(free, j)
                [] res = "Penalty" -> nfree
                [] OTHER -> free)
  /\ IF res = "Converged" THEN status' = "Optimal" /\ why' = "converged" /\ pc' = "Done"
     ELSE IF res = "Unbounded" THEN status' = "Unbounded" /\ why' = "event" /\ pc' = "Done"
     ELSE IF iter + 1 >= Limit THEN status' = "IterationLimit" /\ why' = "limit" /\ pc' = "Done"
     ELSE status' = "none" /\ why' = why /\ pc' = "Top"

Integrate ==
  /\ pc = "Integrate"
  /\ \/ \E res \in {"Converged", "Unbounded", "Finished"} : Outcome(res, "none", 0, free)
     \/ \E j \in Vars, trig \in {"LB", "UB", "GRAD_FIXED"} : TrigOK(free, trig, j) /\ Outcome("Event", trig, j, free)
     \/ \E nfree \in SUBSET Vars : Outcome("Penalty", "none", 0, nfree)
  /\ dl' \in {dl, TRUE}

Next == Top \/ Integrate
Spec == Init /\ [][Next]_vars

C01_OptimalOnlyIfConverged == status = "Optimal" => why \in {"residuum", "converged"}
C02_IterBound == iter <= Limit
C02_IterLimitOnlyAtLimit == status = "IterationLimit" => iter = Limit
C16_PenaltyMonotone == [][lev' >= lev]_vars

(* active-set bookkeeping of the flow *)
SymDiff(A, B) == (A \ B) \cup (B \ A)
EventFlipsOne == [][(last'.res = "Event" /\ iter' = iter + 1) => SymDiff(free, free') = {last'.j}]_vars
OnlyEventsMoveTheSet == [][(iter' = iter + 1 /\ last'.res \notin {"Event", "Penalty"}) => free' = free]_vars
BoundEventsPin == [][(iter' = iter + 1 /\ last'.trig \in {"LB", "UB"}) => (last'.j \in free /\ last'.j \notin free')]_vars
SignChangeReleases == [][(iter' = iter + 1 /\ last'.trig = "GRAD_FIXED") => (last'.j \notin free /\ last'.j \in free')]_vars
PenaltyOnlyOnPenalty == [][lev' # lev => last'.res = "Penalty"]_vars
=============================================================================
