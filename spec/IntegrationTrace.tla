-------------------------- MODULE IntegrationTrace --------------------------
(***************************************************************************)
(* Trace validation of IntegrationSolver.solve against IntegrationLoop:    *)
(* each recorded event determines the next state; the step must be a step  *)
(* of IntegrationLoop!Next, and the property clauses are evaluated on the  *)
(* way (Optimal only via residuum <= tol or a Converged event; iteration   *)
(* bound; user-level KKT conditions of an Optimal result).                 *)
(***************************************************************************)
EXTENDS IntegrationLoop, KKTAbs, Json, IOUtils, TLC, TLCExt, Sequences

Tr == ndJsonDeserialize(IOEnv.IG_TRACE)
VARIABLES i, lastres
tvars == <<pc, iter, lev, status, why, dl, i, lastres>>
Note(t, n) == TLCSet(1, Append(TLCGet(1), <<i, t, n>>))
Chk(t, n, F) == IF F THEN TRUE ELSE Note(t, n)
E == Tr[i]

TInit == TLCSet(1, <<>>) /\ TLCSet(2, 0) /\ i = 1 /\ lastres = FALSE
         /\ pc = "Top" /\ iter = 0 /\ lev = 0 /\ status = "none" /\ why = "none" /\ dl = FALSE

Reset == /\ E.ev = "Reset"
         /\ pc' = "Top" /\ iter' = 0 /\ lev' = 0 /\ status' = "none" /\ why' = "none" /\ dl' = FALSE /\ lastres' = FALSE

(* loop top: the residuum test (and, if it fails, the other termination tests) *)
TopEv == /\ E.ev = "Top"
         /\ lastres' = E.resLe
         /\ dl' = E.expired
         /\ iter' = iter /\ lev' = lev
         /\ status' = E.status
         /\ why' = (CASE E.status = "Optimal" -> "residuum" [] E.status = "TimeLimit" -> "deadline"
                      [] E.status = "LocallyInfeasible" -> "infeasible" [] E.status = "Unbounded" -> "objlimit" [] OTHER -> why)
         /\ pc' = IF E.status = "none" THEN "Integrate" ELSE "Done"
         /\ Chk("M", "top.pc", pc = "Top")
         /\ Chk("P:C01", "optimal.iff.residuum", (E.status = "Optimal") <=> E.resLe)
         /\ Chk("M", "top.is.spec.step", pc # "Top" \/ E.status \in {"TimeLimit"} \/ Top)

IntegrateEv ==
         /\ E.ev = "Integrate"
         /\ iter' = iter + 1
         /\ lev' = IF E.result = "Penalty" /\ lev < MaxRhoLev THEN lev + 1 ELSE lev
         /\ dl' = dl /\ lastres' = lastres
         /\ status' = (IF E.result = "Converged" THEN "Optimal" ELSE IF E.result = "Unbounded" THEN "Unbounded"
                       ELSE IF E.limitHit THEN "IterationLimit" ELSE "none")
         /\ why' = (IF E.result = "Converged" THEN "converged" ELSE IF E.result = "Unbounded" THEN "event"
                    ELSE IF E.limitHit THEN "limit" ELSE why)
         /\ pc' = IF status' = "none" THEN "Top" ELSE "Done"
         /\ Chk("M", "integrate.pc", pc = "Integrate")

ReturnEv ==
         /\ E.ev = "Return"
         /\ UNCHANGED <<pc, iter, lev, status, why, dl, lastres>>
         /\ Chk("M", "return.status", E.status = status)
         /\ Chk("P:C01", "optimal.only.if.converged", E.status = "Optimal" => why \in {"residuum", "converged"})
         /\ Chk("P:C01", "return.kkt", E.status = "Optimal" => UserKKT(E.kkt))
         /\ Chk("P:C02", "iterations", E.iterations = iter)
         /\ Chk("P:C02", "iterbound", E.limit >= 0 => E.iterations <= E.limit)
         /\ Chk("P:C02", "iterlimit.only.at.limit", E.status = "IterationLimit" => E.iterations = E.limit)
         /\ Chk("P:C06", "finite", E.finite)

TNext == /\ i <= Len(Tr)
         /\ TLCSet(2, i)
         /\ (Reset \/ TopEv \/ IntegrateEv \/ ReturnEv)
         /\ i' = i + 1
TSpec == TInit /\ [][TNext]_tvars
TDone == PrintT(<<"GFLAST", TLCGet(2), Len(Tr)>>) /\ PrintT(<<"GFNOTES", TLCGet(1)>>)
=============================================================================
