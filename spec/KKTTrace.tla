----------------------------- MODULE KKTTrace -----------------------------
(* Validates recorded Optimal results (oracle classes) against UserKKT of KKTAbs. *)
EXTENDS KKTAbs, Json, IOUtils, TLC, TLCExt
Tr == ndJsonDeserialize(IOEnv.KKT_TRACE)
VARIABLE i
TInit == TLCSet(1, <<>>) /\ TLCSet(2, 0) /\ i = 1
TNext == /\ i <= Len(Tr)
         /\ TLCSet(2, i)
         /\ IF Tr[i].status = "Optimal" => UserKKT(Tr[i].kkt) THEN TRUE ELSE TLCSet(1, Append(TLCGet(1), <<i, "P:C01", "return.kkt">>))
         /\ i' = i + 1
TSpec == TInit /\ [][TNext]_i
TDone == PrintT(<<"GFLAST", TLCGet(2), Len(Tr)>>) /\ PrintT(<<"GFNOTES", TLCGet(1)>>)
=============================================================================
