SPECIFICATION Spec
CONSTANTS
  Limit = 4
  MaxRhoLev = 3
  Vars = {1, 2, 3}
INVARIANT C01_OptimalOnlyIfConverged
INVARIANT C02_IterBound
INVARIANT C02_IterLimitOnlyAtLimit
PROPERTY C16_PenaltyMonotone
PROPERTY EventFlipsOne
PROPERTY OnlyEventsMoveTheSet
PROPERTY BoundEventsPin
PROPERTY SignChangeReleases
PROPERTY PenaltyOnlyOnPenalty
CHECK_DEADLOCK FALSE
