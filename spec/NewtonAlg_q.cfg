SPECIFICATION NSpec
CONSTANTS
  Faithful = {}
  Dats = {1, 2, 3}
  Xs <- Xq
  Ys <- Yq
  Xhats <- Hq
  Lambs = {1, 2}
  Rhos = {1, 2}
  Boxes <- Bq
INVARIANT C14_FormulationsAgree
INVARIANT C14_SameSingularity
INVARIANT C14_ActiveOntoBound
INVARIANT C14_AffineWhenQP
CHECK_DEADLOCK FALSE
