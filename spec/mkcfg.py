#!/usr/bin/env python3
"""Generates the TLC configuration files of MCGradFlow (one source of truth for the invariant list)."""
TEMPLATE = '''SPECIFICATION MCSpec
CONSTANTS
  Runs = {%(runs)s}
  Mode = "mc"
  Faithful = {%(faithful)s}
  Tabs <- MCTabs
  MaxVal = %(maxval)s
  MaxRho = 3
  MaxIter = %(maxiter)s
  MaxK = 2
  MaxF = %(maxf)s
  CfgSpace <- %(space)s
  SimBias = %(simbias)s
CONSTRAINT Bound
CHECK_DEADLOCK FALSE
INVARIANT TypeOK
INVARIANT NoViolation
INVARIANT C02_IterBound
INVARIANT C02_IterLimitIff
INVARIANT C02_TimeLimitAfterDeadline
INVARIANT C06_TerminalKinds
INVARIANT C12_CountersConsistent
INVARIANT C12_CurIsLastCommitted
INVARIANT C15_NoTrialAtLambMax
INVARIANT C15_RejectKeepsPoint
INVARIANT C15_Chain
INVARIANT C16_RhoPositive
INVARIANT C16_RhoMonotoneHist
INVARIANT C16_ConstantUnchanged
INVARIANT C18_Antichain
INVARIANT C08_NoLeak
%(extra)s
'''
TW = 'INVARIANT Twin_Prefix\nINVARIANT Twin_SameEnd\nINVARIANT C08_StopsAsLimit'


def w(name, **kw):
    d = dict(simbias='FALSE', faithful='', runs='"A"', maxval=4, maxiter=3, maxf=1, extra='PROPERTY C09_ObserverStutter')
    d.update(kw)
    open(name, 'w').write(TEMPLATE % d)


w('GF_small.cfg', space='SmallCfgs')
w('GF_q_small.cfg', space='SmallCfgs', maxiter=2, maxval=3)
w('GF_deadline.cfg', space='DeadlineCfgs', maxiter=2)
w('GF_q_deadline.cfg', space='QDeadlineCfgs', maxiter=2, maxval=3)
w('GF_observers.cfg', space='ObserverCfgs', maxiter=2)
w('GF_q_observers.cfg', space='QObserverCfgs', maxiter=2, maxval=3)
w('GF_twin_stop.cfg', space='TwinStopCfgs', runs='"A", "B"', maxiter=2, extra=TW)
w('GF_q_twin_stop.cfg', space='QTwinStopCfgs', runs='"A", "B"', maxiter=2, maxval=3, extra=TW)
w('GF_twin_obs.cfg', space='TwinObsCfgs', runs='"A", "B"', maxiter=2, extra=TW)
w('GF_q_twin_obs.cfg', space='QTwinObsCfgs', runs='"A", "B"', maxiter=2, maxval=3, extra=TW)
w('GF_twin_hist.cfg', space='TwinHistCfgs', runs='"A", "B", "C"', maxiter=2, maxval=3, extra=TW)
w('GF_q_twin_hist.cfg', space='QTwinHistCfgs', runs='"A", "B", "C"', maxiter=2, maxval=3, extra=TW)
w('GF_w_F8.cfg', space='QTwinStopCfgs', runs='"A", "B"', maxiter=2, maxval=3, extra=TW, faithful='"F8"')
w('GF_sim.cfg', space='SimCfgs', maxiter=5, maxval=5, maxf=2, simbias='TRUE')
