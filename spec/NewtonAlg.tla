----------------------------- MODULE NewtonAlg -----------------------------
(***************************************************************************)
(* C14: the scaled step-solver formulations (Extended / Symmetric /        *)
(* Asymmetric: block elimination of the rho J'J term through the (2,2)     *)
(* block -lamb/(1+lamb rho) and back-substitution of dy) compute the       *)
(* semismooth Newton step of the implicit-Euler equation, i.e. the         *)
(* solution of  DL(As) s = FL  from Residuals.tla.  Exact: Cramer's rule   *)
(* on integer matrices, identities cross-multiplied by the determinant.    *)
(* Faithful = {"F9"} models the Hessian at multiplier y (rho = 0.0 passed  *)
(* to aug_lag_deriv_xx) instead of y + rho c.                              *)
(***************************************************************************)
EXTENDS Residuals

CONSTANT Faithful

Det3(M) == M[1][1] * (M[2][2] * M[3][3] - M[2][3] * M[3][2])
         - M[1][2] * (M[2][1] * M[3][3] - M[2][3] * M[3][1])
         + M[1][3] * (M[2][1] * M[3][2] - M[2][2] * M[3][1])
ReplCol(M, k, v) == [i \in 1..3 |-> [j \in 1..3 |-> IF j = k THEN v[i] ELSE M[i][j]]]

As(cs) == ActiveAt(cs, cs.x, cs.y)
(* Hessian handed to the scaled formulations *)
MultH(cs) == IF "F9" \in Faithful THEN cs.y ELSE cs.y + cs.rho * C(cs.dat, cs.x)
H0(cs) == H(cs.dat, MultH(cs))
Fact1(cs) == 1 + cs.lamb * cs.rho                     \* 1 / fact

(* right-hand sides of ScaledStepSolver.initial_rhs (scaled residual lamb F, dual part negated) *)
RX(cs) == FLx(cs, cs.x, cs.y, As(cs))
B2(cs) == -FLy(cs, cs.x, cs.y)
B0(cs, j) == cs.x[j] - (IF PL(cs, cs.x, cs.y)[j] < cs.lamb * cs.box.lb[j] THEN cs.box.lb[j] ELSE cs.box.ub[j])  \* dt * rx_j, j active

(* the reduced KKT system, last row multiplied by (1 + lamb rho) to stay integral *)
KMat(cs) ==
  << [j \in 1..3 |-> IF 1 \in As(cs) THEN (IF j = 1 THEN 1 ELSE 0)
                     ELSE IF j <= 2 THEN H0(cs)[1][j] + (IF j = 1 THEN cs.lamb ELSE 0) ELSE J(cs.dat, cs.x)[1]],
     [j \in 1..3 |-> IF 2 \in As(cs) THEN (IF j = 2 THEN 1 ELSE 0)
                     ELSE IF j <= 2 THEN H0(cs)[2][j] + (IF j = 2 THEN cs.lamb ELSE 0) ELSE J(cs.dat, cs.x)[2]],
     <<Fact1(cs) * J(cs.dat, cs.x)[1], Fact1(cs) * J(cs.dat, cs.x)[2], -cs.lamb>> >>
KRhs(cs) == <<IF 1 \in As(cs) THEN B0(cs, 1) ELSE RX(cs)[1], IF 2 \in As(cs) THEN B0(cs, 2) ELSE RX(cs)[2], B2(cs)>>

Step(cs) ==
  LET K == KMat(cs)
      r == KRhs(cs)
      dt == Det3(K)
  IN [det |-> dt,
      X |-> <<Det3(ReplCol(K, 1, r)), Det3(ReplCol(K, 2, r))>>,              \* dx_j = X_j / det
      DYn |-> Det3(ReplCol(K, 3, r)) - cs.rho * B2(cs) * dt,                 \* dy = DYn / (det (1 + lamb rho))
      DYd |-> dt * Fact1(cs),
      act |-> As(cs), stdDet |-> Det3(DL(cs, cs.x, cs.y, As(cs)))]

(* generic cases (current point differs from the previous iterate) and start cases (first Newton step) *)
StartCases == {[cs EXCEPT !.xhat = cs.x, !.yhat = cs.y] : cs \in Cases}
NCases == {cs \in Cases \cup StartCases : Det3(KMat(cs)) # 0}
NInit == c \in NCases /\ out = Step(c)
NSpec == NInit /\ [][UNCHANGED <<c, out>>]_<<c, out>>

(* the scaled formulations solve the standard Newton system  DL(As) (dx, dy) = (FLx, FLy) *)
C14_FormulationsAgree ==
  LET M == DL(c, c.x, c.y, out.act)
      rhs == <<RX(c)[1], RX(c)[2], FLy(c, c.x, c.y)>>
  IN \A i \in 1..3 :
       (M[i][1] * out.X[1] + M[i][2] * out.X[2]) * Fact1(c) + M[i][3] * out.DYn = rhs[i] * out.det * Fact1(c)
(* nonsingularity is equivalent in both formulations *)
C14_SameSingularity == out.stdDet # 0
(* active components move exactly onto their bound *)
C14_ActiveOntoBound == \A j \in out.act : out.X[j] = B0(c, j) * out.det
(* quadratic objective, affine constraints, frozen active set: the residual is affine, so one step solves it *)
C14_AffineWhenQP == D(c.dat) = 0 =>
   \A i \in 1..2, j \in 1..2 :
      LET f(z) == IF i \in out.act THEN c.lamb * z[i] ELSE c.lamb * z[i] - PL(c, z, c.y)[i] IN
      f(Sh(c.x, j, 1)) + f(Sh(c.x, j, -1)) = 2 * f(c.x)
=============================================================================
