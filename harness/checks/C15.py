"""C15 step-size control: rejected steps shrink the step and keep the point."""
import numpy as np

from harness.checklib import Check
from harness.checks.common import family_spec
from harness import gen


def groups(n, seed):
    rng = np.random.default_rng(seed)
    gs = []
    for i in range(n):
        pk = gen.random_params(rng, iteration_limit=40, step_control_type=gen.CTLS[i % 4],
                               newton_type=gen.NEWTONS[(i // 4) % 4])
        rs = {"prob": family_spec(i, rng), "params": pk}
        mode = i % 5
        if mode == 1:
            pk["lamb_max"] = float(2.0 ** rng.integers(2, 8))      # the abort is within reach
        elif mode == 2:
            rs["fault"] = ("transient", None, int(rng.integers(8, 80)), "nan")
        elif mode == 3:
            rs["lin_fault"] = ("lin", None, int(rng.integers(0, 30)))
        elif mode == 4:
            rs["fault"] = ("region", 0, float(rng.uniform(-0.5, 1.0)), ["obj", "cons", "obj_grad"][i % 3], "nan")
            pk["lamb_max"] = 1e4
        gs.append({"tag": "C15", "runs": [rs]})
    # ratio controllers may also *raise* lamb on an accepted step (theta between theta_ref and theta_max): small, odd lamb_max
    from pygradflow.params import StepControlType
    for i in range(max(10, n // 8)):
        pk = dict(step_control_type=[StepControlType.ResiduumRatio, StepControlType.DistanceRatio][i % 2],
                  lamb_max=[3.3, 6.5, 13.0, 20.0, 50.0][i % 5], iteration_limit=60, display_interval=1e9)
        gs.append({"tag": "C15.lambmax", "runs": [{"prob": ("repo", ["rosenbrock", "hs71", "hs71c"][i % 3]), "params": pk,
                                                   "x0": [[-1.2, 1.0], None, None][i % 3]}]})
    # the Exact controller halves lamb on every accepted step without a floor: lamb_min within reach, so that the hand-over
    # of the returned lamb to the next trial (dt = 1/lamb) is also observed below lamb_min
    for i in range(max(8, n // 10)):
        lm = [0.25, 0.1, 0.5, 1.0][i % 4]
        pk = dict(step_control_type=[StepControlType.Exact, StepControlType.Exact, StepControlType.DistanceRatio][i % 3],
                  lamb_min=lm, lamb_init=[1.0, lm][(i // 4) % 2], iteration_limit=30, display_interval=1e9)
        gs.append({"tag": "C15.lambmin", "runs": [{"prob": family_spec(3 * i + 1, rng) if i % 2 else ("repo", ["tame", "hs71"][(i // 2) % 2]),
                                                   "params": pk}]})
    # all finite bounds of the internal problem on one side (variables and slacks): long steps that overshoot a bound
    for i in range(max(8, n // 10)):
        nv = int(rng.integers(2, 5))
        side = ["lower", "upper"][i % 2]
        ps = ("convex_qp", int(rng.integers(0, 2 ** 31)), nv, int(rng.integers(0, 3)),
              {"var_kinds": [side if (j + i) % 3 else "free" for j in range(nv)], "row_kinds": [[side, "eq0"], ["eq"], [side, side]][i % 3]})
        pk = dict(step_control_type=gen.CTLS[i % 4], lamb_init=float(10.0 ** rng.uniform(-4, -1)), iteration_limit=30, display_interval=1e9,
                  newton_type=gen.NEWTONS[(i // 4) % 3])
        gs.append({"tag": "C15.onesided", "runs": [{"prob": ps, "params": pk, "x0_on_bounds": bool(i % 4 == 3)}]})
    return gs


def _pl(o):
    if isinstance(o, dict):
        return {k: _pl(v) for k, v in o.items()}
    if isinstance(o, (tuple, list)):
        return [_pl(v) for v in o]
    return o


def main():
    chk = Check("C15")
    chk.mc("GF_small.cfg" if chk.thorough else "GF_q_small.cfg")
    chk.tv(groups(1200 if chk.thorough else 100, chk.seed), "C15 sweep")
    # decision logic of the four controllers: every case of Controllers.tla on the real classes (scripted Newton method)
    from harness import ctldriver
    states = chk.mc_dump("Controllers.cfg", "Controllers.tla")
    if states is not None:
        stride = 1          # the whole case space replays in a few seconds
        for si, st in enumerate(states):
            if si % stride:
                continue
            c, exp = st["cs"], st["out"]
            try:
                got = ctldriver.run_case(c)
            except Exception as e:  # noqa
                chk.kernel_violation(("controller.exception", c["ctl"], type(e).__name__), {"case": _pl(c), "error": str(e)[:200]})
                continue
            chk.case(("ctl", si))
            lamb = got["lamb_used"]
            if not exp["accepted"] and exp["rule"] != "keep" and not (got["lamb"] > lamb) and not got["accepted"]:
                chk.kernel_violation(("controller.reject.shrinks", c["ctl"]), {"case": _pl(c), "spec": _pl(exp), "code": got})
            elif c["ctl"] == "Exact" and got["accepted"] and not (1 <= got["returned"] <= len(c["obs"]) and c["obs"][got["returned"] - 1]["resLe"]):
                chk.kernel_violation(("controller.exact.solves", c["ctl"]), {"case": _pl(c), "spec": _pl(exp), "code": got})
            elif exp["rule"] == "keep" and got["accepted"]:
                chk.kernel_violation(("controller.deadline.accepted", c["ctl"]), {"case": _pl(c), "spec": _pl(exp), "code": got})
            else:
                ok = got["accepted"] == exp["accepted"] and got["returned"] == exp["returned"] and got["steps"] == exp["steps"]
                el = ctldriver.expected_lamb(exp["rule"], lamb)
                ok = ok and (got["lamb"] >= 1.0 if el is None else got["lamb"] == el)
                if not ok:
                    chk.drift["controller.decision"] = chk.drift.get("controller.decision", 0) + 1
        chk.traces += chk.cases
    chk.assumptions += ["exact.solves compares an independently computed implicit-Euler residual (true projection) with "
                        "newton_tol*(1+1e-6) + sqrt(n)*1e-8 (the code's activity margin)"]
    chk.replay_behaviours(num=500 if not chk.thorough else 6000)
    return chk.finish(rule="MC over all accept/reject/fail sequences of the 4 controllers with lamb_max within reach + traced "
                           "solves with injected failures and tiny lamb_max")
