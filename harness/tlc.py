"""TLC runner and output parsers."""
import os
import re
import shutil
import subprocess
import tempfile
import time

SPEC_DIR = os.path.join(os.path.dirname(os.path.dirname(os.path.abspath(__file__))), "spec")


class TLCFailure(Exception):
    pass


def run_tlc(module, cfg, workers=16, env=None, timeout=1800, extra=(), cwd=SPEC_DIR):
    meta = tempfile.mkdtemp(prefix="gf_tlc_")
    cmd = ["tlc", "-workers", str(workers), "-metadir", meta, "-noGenerateSpecTE", "-config", cfg] + list(extra) + [module]
    e = dict(os.environ)
    if env:
        e.update(env)
    # TLC's JVM creates a scratch directory under java.io.tmpdir for every run: keep it inside the directory removed below
    e["JAVA_TOOL_OPTIONS"] = (e.get("JAVA_TOOL_OPTIONS", "") + " -Djava.io.tmpdir=" + meta).strip()
    t0 = time.time()
    try:
        p = subprocess.run(cmd, cwd=cwd, env=e, stdout=subprocess.PIPE, stderr=subprocess.STDOUT, text=True, timeout=timeout)
        out = p.stdout
        rc = p.returncode
    except subprocess.TimeoutExpired as ex:
        out = (ex.stdout or b"").decode() if isinstance(ex.stdout, bytes) else (ex.stdout or "")
        rc = -9
        subprocess.run(["pkill", "-f", meta], check=False)
    finally:
        shutil.rmtree(meta, ignore_errors=True)
    return rc, out, time.time() - t0


_STATS = re.compile(r"(\d+) states generated, (\d+) distinct states found, (\d+) states left on queue")


def parse_stats(out):
    m = None
    for m in _STATS.finditer(out):
        pass
    if m is None:
        return None
    return {"generated": int(m.group(1)), "distinct": int(m.group(2)), "queue": int(m.group(3))}


def parse_violation(out):
    m = re.search(r"Error: Invariant (\S+) is violated", out)
    if m:
        return m.group(1)
    m = re.search(r"Error: Action property (\S+) is violated", out)
    if m:
        return m.group(1)
    if "Error: Temporal properties were violated" in out:
        return "temporal"
    return None


_COV = re.compile(r"^<(\w+) line \d+, col \d+ to line \d+, col \d+ of module \w+(?: \([\d ]+\))?>: (\d+):(\d+)", re.M)


def parse_coverage(out):
    """top-level action counts of `-coverage 1`: name -> (distinct, generated)"""
    return {m.group(1): (int(m.group(2)), int(m.group(3))) for m in _COV.finditer(out)}


def model_check(module, cfg, workers=16, timeout=1800, extra=(), coverage=False):
    """Returns dict(ok, violated, stats, wall, out[, coverage])."""
    if coverage:
        extra = list(extra) + ["-coverage", "1"]
    rc, out, wall = run_tlc(module, cfg, workers=workers, timeout=timeout, extra=extra)
    stats = parse_stats(out)
    viol = parse_violation(out)
    finished = "Model checking completed" in out or viol is not None
    if stats is None and viol is not None:
        stats = {"generated": 1, "distinct": 1, "queue": 0}
    if stats is None or (not finished) or ("Error:" in out and viol is None):
        raise TLCFailure("TLC did not complete for %s/%s (rc=%s):\n%s" % (module, cfg, rc, out[-3000:]))
    res = {"ok": viol is None, "violated": viol, "stats": stats, "wall": wall, "out": out}
    if coverage:
        res["coverage"] = parse_coverage(out)
    return res


_NOTE = re.compile(r'<<(\d+), "([^"]+)", "([^"]+)">>')


def validate_trace(ndjson_path, timeout=3600, module="GradFlowTrace.tla", cfg="GradFlowTrace.cfg", envvar="GF_TRACE"):
    """Runs a trace spec on the batch.  Returns dict(last, total, notes=[(line, tag, name)], stats)."""
    rc, out, wall = run_tlc(module, cfg, workers=1,
                            env={envvar: os.path.abspath(ndjson_path)}, timeout=timeout)
    m = re.search(r'<<"GFLAST", (\d+), (\d+)>>', out)
    if m is None:
        raise TLCFailure("trace validation did not finish (rc=%s):\n%s" % (rc, out[-4000:]))
    i = out.index('"GFNOTES"')
    seg = out[i:]
    j = seg.find("\n\n")
    notes_txt = seg
    notes = sorted(set((int(a), b, c) for (a, b, c) in _NOTE.findall(notes_txt)))
    return {"last": int(m.group(1)), "total": int(m.group(2)), "notes": notes, "stats": parse_stats(out), "wall": wall, "out": out}


def model_check_dump(module, cfg, workers=8, timeout=1800):
    """Model check and return (result dict, list of parsed states)."""
    import tempfile as _tf

    from harness import tlaparse

    d = _tf.mkdtemp(prefix="gf_dump_")
    try:
        dump = os.path.join(d, "states.dump")
        r = model_check(module, cfg, workers=workers, timeout=timeout, extra=["-dump", dump])
        states = tlaparse.parse_dump(dump)
    finally:
        shutil.rmtree(d, ignore_errors=True)
    return r, states


def apalache_check(module, init, inv, length, timeout=900):
    """Runs apalache-mc check; returns (ok, tail of output, wall)."""
    d = tempfile.mkdtemp(prefix="gf_apa_")
    t0 = time.time()
    try:
        p = subprocess.run(["apalache-mc", "check", "--init=" + init, "--inv=" + inv, "--length=%d" % length, "--out-dir=" + d, module],
                           cwd=SPEC_DIR, stdout=subprocess.PIPE, stderr=subprocess.STDOUT, text=True, timeout=timeout)
        out = p.stdout
    except subprocess.TimeoutExpired:
        out = "timeout"
    finally:
        shutil.rmtree(d, ignore_errors=True)
    return ("The outcome is: NoError" in out and "EXITCODE: OK" in out), out[-1500:], time.time() - t0
