-------------------------- MODULE IntegrationLoop --------------------------
(***************************************************************************)
(* C01 (second solver): control structure of IntegrationSolver.solve.      *)
(* The environment decides the residuum class at each loop top and the     *)
(* outcome of each integration; Optimal is reachable only through          *)
(* "residuum <= opt_tol" at the loop top or a Converged event.             *)
(***************************************************************************)
EXTENDS Integers

CONSTANTS Limit, MaxRhoLev

VARIABLES pc, iter, lev, status, why, dl

vars == <<pc, iter, lev, status, why, dl>>
Init == pc = "Top" /\ iter = 0 /\ lev = 0 /\ status = "none" /\ why = "none" /\ dl \in BOOLEAN

Top ==
  /\ pc = "Top"
  /\ \/ /\ status' = "Optimal" /\ why' = "residuum" /\ pc' = "Done"                 \* curr_res <= opt_tol
     \/ /\ dl /\ status' = "TimeLimit" /\ why' = "deadline" /\ pc' = "Done"
     \/ /\ ~dl /\ status' = "LocallyInfeasible" /\ why' = "infeasible" /\ pc' = "Done"
     \/ /\ ~dl /\ status' = "Unbounded" /\ why' = "objlimit" /\ pc' = "Done"
     \/ /\ ~dl /\ status' = "none" /\ why' = why /\ pc' = "Integrate"
  /\ UNCHANGED <<iter, lev, dl>>

Integrate ==
  /\ pc = "Integrate"
  /\ iter' = iter + 1
  /\ \E res \in {"Converged", "Unbounded", "Event", "Finished", "Penalty"} :
       /\ lev' = IF res = "Penalty" /\ lev < MaxRhoLev THEN lev + 1 ELSE lev
       /\ IF res = "Converged" THEN status' = "Optimal" /\ why' = "converged" /\ pc' = "Done"
          ELSE IF res = "Unbounded" THEN status' = "Unbounded" /\ why' = "event" /\ pc' = "Done"
          ELSE IF iter + 1 >= Limit THEN status' = "IterationLimit" /\ why' = "limit" /\ pc' = "Done"
          ELSE status' = "none" /\ why' = why /\ pc' = "Top"
  /\ dl' \in {dl, TRUE}

Next == Top \/ Integrate
Spec == Init /\ [][Next]_vars

C01_OptimalOnlyIfConverged == status = "Optimal" => why \in {"residuum", "converged"}
C02_IterBound == iter <= Limit
C02_IterLimitOnlyAtLimit == status = "IterationLimit" => iter = Limit
C16_PenaltyMonotone == [][lev' >= lev]_vars
=============================================================================
