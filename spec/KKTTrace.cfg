SPECIFICATION TSpec
POSTCONDITION TDone
CHECK_DEADLOCK FALSE
