SPECIFICATION Spec
CONSTANTS
  N = 3
  MaxEvents = 4
INVARIANT InteriorFree
INVARIANT PinnedOutward
INVARIANT FreeInward
INVARIANT TriggerShape
INVARIANT EventsSound
CHECK_DEADLOCK FALSE
