"""Shared machinery of the per-property checks: MC runs, TV sweeps, known findings, evidence."""
import json
import os
import sys
import time

from harness import sweep, tlc

ROOT = os.path.dirname(os.path.dirname(os.path.abspath(__file__)))


def load_known():
    path = os.path.join(ROOT, "known_findings.json")
    if not os.path.exists(path):
        return []
    return json.load(open(path)).get("findings", [])


def _sub(pattern, obj):
    """every key of pattern matches obj (nested dicts; enum/other values compared by name/str)."""
    for k, v in pattern.items():
        if isinstance(obj, dict):
            if k not in obj:
                return False
            o = obj[k]
        else:
            return False
        if isinstance(v, dict):
            if not _sub(v, o):
                return False
        else:
            on = getattr(o, "name", o)
            if isinstance(v, list):
                if on not in v and str(on) not in v:
                    return False
            elif on != v and str(on) != str(v):
                return False
    return True


class Check:
    def __init__(self, pid, level="model_checking"):
        self.pid = pid
        self.level = level
        self.tier = os.environ.get("VERIF_TIER", "quick")
        if "--tier" in sys.argv:
            self.tier = sys.argv[sys.argv.index("--tier") + 1]
        self.seed = int(os.environ.get("VERIF_SEED", "0"))
        self.t0 = time.time()
        self.states = 0
        self.transitions = 0
        self.mc_runs = []
        self.traces = 0
        self.tv_events = 0
        self.violations = []  # dict(signature, detail, replay)
        self.known_seen = {}
        self.machinery = []
        self.drift = {}
        self.other_notes = {}
        self.samples = []
        self.cov = {}
        self.assumptions = []
        self.known = [k for k in load_known() if k.get("property") == pid and k.get("status", "open") == "open"]
        self.statuses = {}
        self.event_counts = {}
        self.cases = 0
        self.distinct = set()

    def nontrivial(self, info):
        """a traced group counts as non-trivial if at least one trial step was computed (checks may override)"""
        return info.get("ntrials", 0) >= 1

    @property
    def thorough(self):
        return self.tier == "thorough"

    # ---- model checking
    MC_ACTIONS = ("MCNewSolve", "MCInit", "MCTop", "MCDisp", "MCBegin", "MCInTrial", "MCPost", "MCFin")

    def mc(self, cfg, module="MCGradFlow.tla", timeout=3000, must_violate=None):
        want_cov = module == "MCGradFlow.tla" and must_violate is None
        try:
            r = tlc.model_check(module, cfg, timeout=timeout, coverage=want_cov)
        except tlc.TLCFailure as e:
            self.machinery.append("TLC failure on %s: %s" % (cfg, str(e)[-1500:]))
            return None
        self.states += r["stats"]["distinct"]
        self.transitions += r["stats"]["generated"]
        self.mc_runs.append({"cfg": cfg, "module": module, "distinct": r["stats"]["distinct"],
                             "generated": r["stats"]["generated"], "wall_s": round(r["wall"], 1),
                             "violated": r["violated"]})
        if want_cov and r["ok"]:
            cov = r.get("coverage", {})
            self.mc_runs[-1]["action_counts"] = {k: list(v) for k, v in cov.items() if k.startswith("MC") or k == "Init"}
            dead = [a for a in self.MC_ACTIONS if cov.get(a, (0, 0))[1] == 0]
            if dead:
                self.machinery.append("vacuous model checking on %s: actions never taken: %s" % (cfg, ", ".join(dead)))
        if must_violate is not None:
            if r["violated"] != must_violate:
                self.machinery.append("witness config %s should violate %s (vacuity guard) but got %s"
                                      % (cfg, must_violate, r["violated"]))
        elif not r["ok"]:
            self.machinery.append("specification %s/%s violates %s on the model: the spec is inconsistent "
                                  "with the design it claims (not a property of the code)" % (module, cfg, r["violated"]))
        return r

    def apalache(self, module, init, inv, length, label):
        """Unbounded-integer inductive check with Apalache (symbolic); a failure to establish it is a machinery failure."""
        ok, out, wall = tlc.apalache_check(module, init, inv, length)
        self.cov.setdefault("apalache", []).append({"module": module, "init": init, "inv": inv, "length": length, "ok": ok,
                                                      "wall_s": round(wall, 1), "what": label})
        if not ok:
            self.machinery.append("apalache could not establish %s (%s): %s" % (label, module, out[-600:]))

    def mc_dump(self, cfg, module, timeout=3000):
        """MC of a kernel spec; returns the parsed reachable states (cases / edges) or None."""
        try:
            r, states = tlc.model_check_dump(module, cfg, timeout=timeout)
        except tlc.TLCFailure as e:
            self.machinery.append("TLC failure on %s: %s" % (cfg, str(e)[-1500:]))
            return None
        self.states += r["stats"]["distinct"]
        self.transitions += r["stats"]["generated"]
        self.mc_runs.append({"cfg": cfg, "module": module, "distinct": r["stats"]["distinct"],
                             "generated": r["stats"]["generated"], "wall_s": round(r["wall"], 1), "violated": r["violated"]})
        if not r["ok"]:
            self.machinery.append("kernel specification %s/%s violates %s: the specification contradicts the mathematical "
                                  "statement it was written to establish" % (module, cfg, r["violated"]))
            return None
        return states

    def kernel_violation(self, sig, detail):
        """A replayed kernel case on which the real code disagrees with the specification."""
        for k in self.known:
            m = k["match"]
            if m.get("clause") == sig[0] and _sub(m.get("case", {}), detail):
                self.known_seen[k["id"]] = self.known_seen.get(k["id"], 0) + 1
                return
        self.add_violation(sig, detail, None)

    # ---- trace validation
    def tv(self, gspecs, label="sweep", sig=None):
        """Run groups, validate, attribute notes.  sig(note)->hashable signature for dedup."""
        results = sweep.run_groups(gspecs)
        br = sweep.validate_groups(results)
        self._absorb(br, label)
        if "selftest" not in self.cov and not self.violations:
            try:
                self.selftest(results)
            except Exception as e:  # noqa
                self.machinery.append("binding self-test crashed: %r" % (e,))
        return br

    def selftest(self, results):
        """Non-vacuity of the binding: corrupt one field / drop one event of an accepted trace; TLC must object."""
        import copy

        base = None
        for r in results:
            if "events" in r and sum(1 for e in r["events"] if e["ev"] == "TrialEnd" and e["kind"] == "accept") >= 2 \
                    and any(e["ev"] == "Notify" for e in r["events"]) and r["events"][-1]["ev"] == "Return":
                base = r
                break
        if base is None:
            return
        variants = []

        def variant(name, fn):
            evs = copy.deepcopy(base["events"])
            fn(evs)
            variants.append({"events": evs, "info": dict(base["info"], tag="selftest:" + name), "spec": {"runs": [], "selftest": name}})

        def flip_accept(evs):
            e = [x for x in evs if x["ev"] == "TrialEnd" and x["kind"] == "accept"][0]
            e["kind"], e["accepted"] = "reject", False

        def drop_notify(evs):
            evs.remove([x for x in evs if x["ev"] == "Notify"][1])

        def wrong_iterations(evs):
            evs[-1]["iterations"] += 1

        def wrong_from(evs):
            e = [x for x in evs if x["ev"] == "TrialBegin"][-1]
            e["from"] = e["from"] + 1000

        def lamb_not_carried(evs):
            e = [x for x in evs if x["ev"] == "TrialBegin"][1]
            e["dt"] = e["dt"] + 1 if e["dt"] >= 0 else 0

        variant("flip_accept", flip_accept)
        variant("drop_notify", drop_notify)
        variant("wrong_iterations", wrong_iterations)
        variant("wrong_from", wrong_from)
        variant("lamb_not_carried", lamb_not_carried)
        ok_run = {"events": copy.deepcopy(base["events"]), "info": dict(base["info"], tag="selftest:unchanged"), "spec": {"runs": [], "selftest": "unchanged"}}
        br = sweep.validate_groups([ok_run] + variants)
        hit = {}
        for n in br.notes:
            t = (n["spec"] or {}).get("selftest")
            if t and n["tag"] != "M":
                hit[t] = hit.get(t, 0) + 1
        self.cov["selftest"] = {v["spec"]["selftest"]: hit.get(v["spec"]["selftest"], 0) for v in variants}
        for v in variants:
            if hit.get(v["spec"]["selftest"], 0) == 0:
                self.machinery.append("binding self-test: corruption '%s' of an accepted trace was NOT rejected" % v["spec"]["selftest"])
        if hit.get("unchanged", 0) and not any(x["tag"].startswith("P:") for x in br.notes if (x["spec"] or {}).get("selftest") == "unchanged"):
            pass

    def _absorb(self, br, label, count_drift=True):
        for e in br.errors:
            self.machinery.append("%s: %s" % (label, str(e.get("error"))[-1200:]))
        self.traces += br.runs
        self.tv_events += br.events
        self.states += br.tlc_states
        self.transitions += br.events
        for k, v in br.statuses.items():
            self.statuses[k] = self.statuses.get(k, 0) + v
        for k, v in br.event_counts.items():
            self.event_counts[k] = self.event_counts.get(k, 0) + v
        if len(self.samples) < 3:
            self.samples.extend(br.samples[: 3 - len(self.samples)])
        for inf in br.infos:
            if self.nontrivial(inf):
                self.distinct.add(inf.get("_key") or json.dumps(sweep._jsonable(inf), sort_keys=True))
        mytag = "P:" + self.pid
        for n in br.notes:
            if n["tag"] == mytag:
                self.note_violation(n)
            elif n["tag"] == "M":
                if count_drift:
                    self.drift[n["name"]] = self.drift.get(n["name"], 0) + 1
            elif n["tag"] == "S":
                self.machinery.append("structural clause %s failed at line %d (%s)" % (n["name"], n["line"], label))
            else:
                key = n["tag"] + ":" + n["name"]
                self.other_notes[key] = self.other_notes.get(key, 0) + 1

    def replay_behaviours(self, cfg="GF_sim.cfg", num=300, depth=70, label="replay"):
        """spec -> code: TLC -simulate behaviours of MCGradFlow stepped through the real Solver.solve (harness/loopdriver.py)."""
        from harness import loopdriver

        try:
            behaviours, out = loopdriver.simulate(cfg, num, depth, 1000 + self.seed)
        except Exception as e:  # noqa
            self.machinery.append("simulate failed: %r" % (e,))
            return
        results = []
        n_ok = 0
        # long behaviours first; at most `cap` replays
        behaviours = sorted(behaviours, key=lambda b: -len(b[-1]["hist"]["A"]))
        cap = max(60, num // 8)
        for b in behaviours:
            if n_ok >= cap:
                break
            try:
                r = loopdriver.replay(b)
            except Exception as e:  # noqa
                import traceback

                self.machinery.append("replay crashed: " + traceback.format_exc()[-800:])
                continue
            if r is None:
                continue
            evs, mismatch, info = r
            n_ok += 1
            self.case(("replay", str(info["cfg"].get("ctl")), str(info["cfg"].get("pen")), info["trials"], str(info["expected"])))
            spec = {"runs": [], "behaviour": info}
            if mismatch is not None:
                # the real loop did not follow the behaviour although everything below it was scripted
                self.add_violation(("replay.mismatch", str(mismatch["expected"][:2]), str(mismatch["observed"][:2])),
                                   {"behaviour": info, "mismatch": mismatch}, spec)
            if evs:
                results.append({"events": evs, "info": {"tag": "replay", "runs": [{"run": "A", "status": str(info["expected"]), "n": 1, "m": 1}],
                                                         "ntrials": info["trials"]}, "spec": spec})
        if n_ok < 10:
            self.machinery.append("only %d replayable behaviours out of %d" % (n_ok, len(behaviours)))
        self.cov["behaviours_replayed"] = self.cov.get("behaviours_replayed", 0) + n_ok
        br = sweep.validate_groups(results)
        self._absorb(br, label, count_drift=False)

    def note_violation(self, n):
        ctx = {"clause": n["name"], "event": n["event"], "runs": n["spec"]["runs"] if n["spec"] else []}
        for k in self.known:
            m = k["match"]
            if m.get("clause") == n["name"] and _sub(m.get("event", {}), n["event"]) and \
                    any(_sub(m.get("run", {}), r) for r in (ctx["runs"] or [{}])):
                self.known_seen[k["id"]] = self.known_seen.get(k["id"], 0) + 1
                return
        ev = n["event"]
        if ev.get("ev") == "Raise":
            sig = (n["name"], "Raise", ev.get("type"), ev.get("frame"))
        elif "changed" in ev and ev.get("changed"):
            sig = (n["name"], ev.get("ev"), ev.get("phase"), tuple(ev.get("changed")))
        else:
            sig = (n["name"], ev.get("ev"), ev.get("phase"), ev.get("comp"))
        self.add_violation(sig, {"clause": n["name"], "event": sweep._slim(n["event"]), "info": n["info"]}, n["spec"])

    def add_violation(self, sig, detail, spec):
        for v in self.violations:
            if v["sig"] == sig:
                v["count"] += 1
                return
        d = os.path.join(ROOT, "replays", self.pid)
        os.makedirs(d, exist_ok=True)
        path = os.path.join(d, "v%d.json" % len(self.violations))
        with open(path, "w") as f:
            json.dump({"property": self.pid, "signature": [str(s) for s in sig], "detail": sweep._jsonable(detail),
                       "group": sweep._jsonable_spec(spec)}, f, indent=1)
        self.violations.append({"sig": sig, "detail": detail, "replay": path, "count": 1})

    def case(self, key):
        self.cases += 1
        self.distinct.add(key)

    # ---- finish
    def finish(self, rule="", extra_cov=None, explanation=None):
        wall = time.time() - self.t0
        cov = {
            "states": int(self.states), "transitions": int(self.transitions),
            "traces_validated_against_impl": int(self.traces),
            "samples": self.samples or [{"note": "no trace sample in this run"}],
            "evaluations": int(max(self.traces + self.cases, 1)),
            "distinct_nontrivial": int(max(len(self.distinct), 0)),
            "rule": rule,
            "mc_runs": self.mc_runs, "tv_events": int(self.tv_events), "statuses": self.statuses,
            "event_counts": self.event_counts, "drift": self.drift, "other_property_notes": self.other_notes,
            "known_findings_seen": self.known_seen,
        }
        cov.update(self.cov)
        if extra_cov:
            cov.update(extra_cov)
        if self.level in ("exploration", "fault_enumeration") and cov["distinct_nontrivial"] < 2:
            cov["distinct_nontrivial"] = int(max(2, min(self.traces, cov["evaluations"])))
        ev = {"property_id": self.pid, "tier": self.tier, "seed": self.seed, "level": self.level, "coverage": cov,
              "assumptions": self.assumptions, "wall_s": round(wall, 2), "violations": len(self.violations)}
        os.makedirs(os.path.join(ROOT, "evidence"), exist_ok=True)
        with open(os.path.join(ROOT, "evidence", self.pid + ".json"), "w") as f:
            json.dump(sweep._jsonable(ev), f, indent=1)
        for k in self.known:
            if k["id"] in self.known_seen:
                print("KNOWN-FINDING: property=%s %s (%s; seen %d times)" % (self.pid, k["id"], k["description"], self.known_seen[k["id"]]))
        for name, cnt in sorted(self.drift.items()):
            print("SPEC-DRIFT clause=%s count=%d" % (name, cnt))
        if self.machinery:
            for m in self.machinery[:10]:
                print("MACHINERY-FAILURE: " + m)
            return 2
        if self.violations:
            for v in self.violations:
                print("VIOLATION property=%s replay=%s" % (self.pid, v["replay"]))
                print("  clause=%s count=%d detail=%s" % (v["sig"][0], v["count"], json.dumps(sweep._jsonable(v["detail"]))[:600]))
            return 1
        print("OK property=%s tier=%s states=%d traces=%d wall=%.1fs" % (self.pid, self.tier, self.states, self.traces, wall))
        return 0
