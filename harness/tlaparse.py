"""Parser for TLA+ values as printed by TLC (state dumps): ints, strings, booleans, sets, tuples,
records, functions (a :> b @@ ...), intervals.  Sets -> frozenset / list, tuples -> tuple,
records -> dict, functions -> dict."""
import re

_TOK = re.compile(r'\s*(<<|>>|\|->|:>|@@|\.\.|[\[\]{}(),]|-?\d+|"(?:[^"\\]|\\.)*"|[A-Za-z_][A-Za-z0-9_]*)')


def tokenize(s):
    out = []
    i = 0
    while i < len(s):
        m = _TOK.match(s, i)
        if m is None:
            if s[i:].strip() == "":
                break
            raise ValueError("cannot tokenize at %r" % s[i:i + 40])
        out.append(m.group(1))
        i = m.end()
    return out


class _P:
    def __init__(self, toks):
        self.t = toks
        self.i = 0

    def peek(self):
        return self.t[self.i] if self.i < len(self.t) else None

    def next(self):
        v = self.t[self.i]
        self.i += 1
        return v

    def expect(self, x):
        v = self.next()
        if v != x:
            raise ValueError("expected %s got %s" % (x, v))

    def value(self):
        v = self.atom()
        if self.peek() == "..":
            self.next()
            hi = self.atom()
            return frozenset(range(v, hi + 1))
        return v

    def atom(self):
        t = self.next()
        if t == "<<":
            items = []
            while self.peek() != ">>":
                items.append(self.value())
                if self.peek() == ",":
                    self.next()
            self.expect(">>")
            return tuple(items)
        if t == "{":
            items = []
            while self.peek() != "}":
                items.append(self.value())
                if self.peek() == ",":
                    self.next()
            self.expect("}")
            try:
                return frozenset(items)
            except TypeError:
                return items
        if t == "[":
            d = {}
            while self.peek() != "]":
                k = self.next()
                self.expect("|->")
                d[k] = self.value()
                if self.peek() == ",":
                    self.next()
            self.expect("]")
            return d
        if t == "(":
            d = {}
            while True:
                k = self.value()
                self.expect(":>")
                d[_hashable(k)] = self.value()
                if self.peek() == "@@":
                    self.next()
                    continue
                break
            self.expect(")")
            return d
        if t == "TRUE":
            return True
        if t == "FALSE":
            return False
        if t.startswith('"'):
            return t[1:-1]
        if re.match(r"-?\d+$", t):
            return int(t)
        return t


def _hashable(v):
    if isinstance(v, dict):
        return tuple(sorted((k, _hashable(x)) for k, x in v.items()))
    if isinstance(v, list):
        return tuple(_hashable(x) for x in v)
    return v


def parse_value(s):
    p = _P(tokenize(s))
    v = p.value()
    if p.i != len(p.t):
        raise ValueError("trailing tokens in %r" % s[:80])
    return v


def parse_dump(path, only=None):
    """TLC `-dump file` output -> list of dict(var -> value).  `only`: parse just these variables."""
    states = []
    cur = None
    buf = []
    name = None

    def flush():
        nonlocal buf, name
        if name is not None and (only is None or name in only):
            cur[name] = parse_value(" ".join(buf))
        buf, name = [], None

    with open(path) as f:
        for line in f:
            line = line.rstrip("\n")
            if line.startswith("State ") or line.startswith("STATE_"):
                if cur is not None:
                    flush()
                    states.append(cur)
                cur = {}
                continue
            if cur is None:
                continue
            if line.startswith("\\*") or line.startswith("====") or line.startswith("----"):
                continue
            m = re.match(r"^/\\ ([A-Za-z_][A-Za-z0-9_]*) = (.*)$", line)
            if m:
                flush()
                name = m.group(1)
                buf = [m.group(2)]
            elif line.strip():
                buf.append(line.strip())
    if cur is not None:
        flush()
        states.append(cur)
    return states
