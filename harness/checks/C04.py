"""C04 the internally solved problem is an exact reformulation (TransformFn.tla + bit-exact replay)."""
import numpy as np
import scipy.sparse as sps

from harness.checklib import Check
from harness.checks.C20 import _plain
from pygradflow.params import Params, ScalingType
from pygradflow.problem import Problem
from pygradflow.scale import Scaling
from pygradflow.transform import Transformation

SC = 8
INF = 100000000
DATA = {
    1: dict(q=(2, 4), r=1, p=(-1, 3), A=((1, -2), (3, 1)), d=(2, 0), lx=(-4, -INF), ux=(4, 6)),
    2: dict(q=(0, 4), r=-2, p=(2, -2), A=((0, 1), (-1, 2)), d=(0, -2), lx=(-INF, -6), ux=(INF, 6)),
}
ROWS = {"eq0": (0, 0), "eq": (3, 3), "lower": (-1, INF), "upper": (-INF, 2), "ranged": (-2, 5), "narrow": (1048576, 1048577), "free": (-INF, INF)}


def fv(v):
    return np.inf if v == INF else (-np.inf if v == -INF else float(v))


def dec(v):
    return np.inf if v == INF else (-np.inf if v == -INF else v / 2.0 ** SC)


class Poly(Problem):
    def __init__(self, dat, kinds, fmt, int_dtype=False):
        D = DATA[dat]
        self.D = D
        self.fmt = fmt
        # integer-valued derivatives returned with an integer dtype; int_dtype may also name a dtype (e.g. bool for 0/1 data)
        self.mdtype = int_dtype if isinstance(int_dtype, type) else (int if int_dtype else float)
        self.cache = {}                               # callbacks may hand out the same (cached) object again
        lo = np.array([fv(ROWS[k][0]) for k in kinds])
        hi = np.array([fv(ROWS[k][1]) for k in kinds])
        super().__init__(np.array([fv(v) for v in D["lx"]]), np.array([fv(v) for v in D["ux"]]), cons_lb=lo, cons_ub=hi)

    def _fmt(self):
        # "alt": a callback may return a different sparse format (hence another entry order) at every point
        if self.fmt != "alt":
            return self.fmt
        self._nf = getattr(self, "_nf", 0) + 1
        return ("csc", "csr", "coo")[self._nf % 3]

    def obj(self, x):
        D = self.D
        return 0.5 * (D["q"][0] * x[0] ** 2 + D["q"][1] * x[1] ** 2) + D["r"] * x[0] * x[1] + D["p"][0] * x[0] + D["p"][1] * x[1]

    def obj_grad(self, x):
        D = self.D
        return np.array([D["q"][0] * x[0] + D["r"] * x[1] + D["p"][0], D["q"][1] * x[1] + D["r"] * x[0] + D["p"][1]])

    def cons(self, x):
        D = self.D
        return np.array([D["A"][i][0] * x[0] + D["A"][i][1] * x[1] + 0.5 * D["d"][i] * x[0] ** 2 for i in range(2)])

    def cons_jac(self, x):
        D = self.D
        key = ("J", x.tobytes())
        if key not in self.cache:
            J = np.array([[D["A"][i][0] + D["d"][i] * x[0], D["A"][i][1]] for i in range(2)], dtype=float)
            self.cache[key] = sps.coo_matrix(J.astype(self.mdtype)).asformat(self._fmt())
        return self.cache[key]

    def lag_hess(self, x, y):
        D = self.D
        key = ("H", x.tobytes(), y.tobytes())
        if key not in self.cache:
            H = np.array([[D["q"][0] + y[0] * D["d"][0] + y[1] * D["d"][1], D["r"]], [D["r"], D["q"][1]]], dtype=float)
            self.cache[key] = sps.coo_matrix(H.astype(self.mdtype)).asformat(self._fmt())
        return self.cache[key]


DATA[3] = dict(q=(1, 1), r=0, p=(1, -1), A=((1, 0), (1, 1)), d=(0, 0), lx=(-4, -INF), ux=(4, 6))     # 0/1 Jacobian and Hessian


def dtype_cases(chk):
    """The internal derivatives do not depend on the dtype in which a callback returns them: 0/1 matrices returned as bool, int8,
    uint8, float32 against float64, under scalings with non-zero exponents, for every pair of row kinds."""
    kinds = ("eq0", "eq", "lower", "upper", "ranged", "free")
    k = 0
    for k1 in kinds:
        for k2 in kinds:
            for (vw, cw, ow) in (((1, -2), (2, -1), 1), ((-1, 1), (0, 3), -2)):
                k += 1
                fmt = ("coo", "csr", "csc")[k % 3]
                sc = Scaling(np.array(vw, dtype=int), np.array(cw, dtype=int), int(ow))
                params = Params(scaling=sc, scaling_type=ScalingType.Custom)
                ref = None
                for dt in (float, bool, np.int8, np.uint8, np.float32):
                    tr = Transformation(Poly(3, (k1, k2), fmt, dt), params)
                    it = tr.create_transformed_iterate(np.array([1.0, -2.0]), np.array([2.0, -1.0]))
                    got = (tr.evaluator.cons_jac(it.x).toarray(), tr.evaluator.lag_hess(it.x, it.y).toarray())
                    if ref is None:
                        ref = got
                    elif not (same(got[0], ref[0]) and same(got[1], ref[1])):
                        chk.kernel_violation(("transform.callback_dtype", np.dtype(dt).name, fmt),
                                             {"kinds": [k1, k2], "vw": list(vw), "cw": list(cw), "ow": ow, "dtype": np.dtype(dt).name,
                                              "jac": got[0].tolist(), "jac_float64": ref[0].tolist()})
                    chk.case(("dtype", k, np.dtype(dt).name))


def same(a, b):
    a = np.asarray(a, dtype=float)
    b = np.asarray(b, dtype=float)
    return a.shape == b.shape and bool(np.all((a == b) | (np.isnan(a) & np.isnan(b))))


def replay(c, out, fmt, int_dtype=False):
    prob = Poly(c["dat"], c["kinds"], fmt, int_dtype)
    sc = Scaling(np.array(c["vw"], dtype=int), np.array(c["cw"], dtype=int), int(c["ow"]))
    params = Params(scaling=sc, scaling_type=ScalingType.Custom)
    tr = Transformation(prob, params)
    tp = tr.trans_problem
    errs = []
    if not same(tp.var_lb, [dec(v) for v in out["lb"]]) or not same(tp.var_ub, [dec(v) for v in out["ub"]]):
        errs.append("bounds")
    x0 = np.array(c["x"], dtype=float)
    y0 = np.array(c["y"], dtype=float)
    it = tr.create_transformed_iterate(x0, y0)
    xt = np.array([dec(v) for v in out["x0"]])
    yt = np.array([dec(v) for v in out["y0"]])
    if not same(it.x, xt) or not same(it.y, yt):
        errs.append("start")
    ev = tr.evaluator
    if not same(ev.obj(xt), dec(out["obj"])):
        errs.append("obj")
    if not same(ev.obj_grad(xt), [dec(v) for v in out["grad"]]):
        errs.append("grad")
    if not same(ev.cons(xt), [dec(v) for v in out["cons"]]):
        errs.append("cons")
    for rep in range(2):       # evaluated twice: the internal functions are functions of the point, whatever the callbacks cache
        if not same(ev.cons_jac(xt).toarray(), [[dec(v) for v in row] for row in out["jac"]]):
            errs.append("jac" if rep == 0 else "jac.repeated")
        if not same(ev.lag_hess(xt, yt).toarray(), [[dec(v) for v in row] for row in out["hess"]]):
            errs.append("hess" if rep == 0 else "hess.repeated")
        if not same(ev.cons(xt), [dec(v) for v in out["cons"]]):
            errs.append("cons.repeated")
    dt = np.arange(1.0, xt.size + 1.0)
    rx, ry, rd = tr.restore_sol(xt, yt, dt)
    exp_d = np.ldexp(dt[:2], np.array(c["vw"]) - c["ow"])
    if not same(rx, x0) or not same(ry, y0) or not same(rd, exp_d):
        errs.append("restore")
    # the internal functions are functions of the point: at a second point (where entries of the user's Jacobian vanish, so the
    # stored pattern changes) the used transformation answers like a fresh one
    x2 = np.array([-0.5, 1.0]) if c["dat"] == 1 else np.array([2.0, 0.0])
    it2 = tr.create_transformed_iterate(x2, y0)
    fresh = Transformation(Poly(c["dat"], c["kinds"], fmt, int_dtype), params)
    if not same(ev.cons_jac(it2.x).toarray(), fresh.evaluator.cons_jac(it2.x).toarray()):
        errs.append("jac.second_point")
    if not same(ev.lag_hess(it2.x, it2.y).toarray(), fresh.evaluator.lag_hess(it2.x, it2.y).toarray()):
        errs.append("hess.second_point")
    if not same(ev.cons(it2.x), fresh.evaluator.cons(it2.x)) or not same(ev.obj_grad(it2.x), fresh.evaluator.obj_grad(it2.x)):
        errs.append("values.second_point")
    # "for every point": a point outside the variable bounds is mapped like any other (power-of-two image, slacks = projection
    # of c(x) onto [l,u], exact round trip); only the solver decides what to do with such a start (seed C04-i)
    for x3 in (np.where(np.isfinite(prob.var_ub), prob.var_ub + 1.75, 6.0), np.where(np.isfinite(prob.var_lb), prob.var_lb - 2.5, -3.0)):
        xt3, yt3 = tr.transform_sol(x3, y0)
        if not same(xt3[:x3.size], np.ldexp(x3, np.array(c["vw"]))):
            errs.append("start.outside_bounds")
        cx = np.asarray(prob.cons(x3), dtype=float)
        exp_slack = np.ldexp(np.clip(cx, prob.cons_lb, prob.cons_ub), np.array(c["cw"]))
        kinds_ineq = [i for i in range(cx.size) if prob.cons_lb[i] != prob.cons_ub[i]]
        if xt3.size - x3.size == len(kinds_ineq) and not same(xt3[x3.size:], exp_slack[kinds_ineq]):
            errs.append("start.outside_bounds.slacks")
        r3 = tr.restore_sol(xt3, yt3, np.zeros(xt3.size))
        if not same(r3[0], x3) or not same(r3[1], y0):
            errs.append("restore.outside_bounds")
    return errs


def _job(args):
    si, c, out = args
    try:
        return si, replay(c, out, "alt" if si % 7 == 3 else ("coo", "csr", "csc")[si % 3], int_dtype=(si % 5 == 0))
    except Exception as e:  # noqa
        return si, ["exception:" + type(e).__name__]


def main():
    chk = Check("C04")
    states = chk.mc_dump("TransformFn_full.cfg" if chk.thorough else "TransformFn_q.cfg", "TransformFnMC.tla")
    if states is not None:
        fmts = ("coo", "csr", "csc")
        stride = 1 if chk.thorough else 4
        # scattered, not periodic sample in the quick tier: the enumeration order is structured
        todo = [(si, st["c"], st["out"]) for si, st in enumerate(states) if not ((si * 2654435761 >> 8) + chk.seed) % stride]
        import multiprocessing as mp
        with mp.get_context("fork").Pool(14) as pool:
            results = pool.map(_job, todo, chunksize=400)
        for (si, c, out), (_, errs) in zip(todo, results):
            chk.case(si)
            if len(chk.samples) < 2 and si % 1201 == 0:
                chk.samples.append({"case": _plain(c), "expected": _plain(out)})
            for e in errs:
                chk.kernel_violation(("transform." + e, tuple(c["kinds"]), "int" if si % 5 == 0 else "float"),
                                     {"case": _plain(c), "expected": _plain(out), "callback_dtype": "int" if si % 5 == 0 else "float"})
        chk.traces += chk.cases
    dtype_cases(chk)
    chk.assumptions += ["exactness domain: small integer data, weights in -2..1; all quantities are multiples of 2^-8 and exact in binary64 "
                        "(invariant C04_Exact of the spec)", "overflow/underflow excluded as in the statement"]
    return chk.finish(rule="TLC enumerates weights x row-kind pairs (eq0, eq!=0, lower, upper, ranged, free) x points x multipliers x data and "
                           "proves chain rule / round trip / start slack / residual correspondence / zero padding on the transcription; "
                           "each case is replayed through Transformation (bounds, start iterate, evaluator obj/grad/cons/jac/hess, "
                           "restore_sol) in COO/CSR/CSC and compared bit-for-bit", extra_cov={"exhaustive": True})
