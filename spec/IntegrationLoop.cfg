SPECIFICATION Spec
CONSTANTS
  Limit = 4
  MaxRhoLev = 3
INVARIANT C01_OptimalOnlyIfConverged
INVARIANT C02_IterBound
INVARIANT C02_IterLimitOnlyAtLimit
PROPERTY C16_PenaltyMonotone
CHECK_DEADLOCK FALSE
