------------------------------ MODULE TauRule ------------------------------
(***************************************************************************)
(* The active-set rules of NewtonController.compute_tau (C06: they must be *)
(* total).  For every variable the break point of the projected gradient   *)
(* path is tau_j = (x_j - lb_j)/g_j (g_j > 0), (ub_j - x_j)/(-g_j)         *)
(* (g_j < 0), undefined (-1) for a vanishing gradient component.           *)
(*   Standard: no tau.   Explicit: the configured tau.                     *)
(*   SmallestActiveSet: 1 if no break point is positive, else half the     *)
(*                      smallest positive one.                             *)
(*   LargestActiveSet:  max(largest break point, 1).                       *)
(* Rationals are pairs <<num, den>> with den > 0; n = 2 variables, integer *)
(* data, bounds possibly infinite (Inf).  The rule must be defined for     *)
(* EVERY case (in particular: all break points zero or undefined).         *)
(***************************************************************************)
EXTENDS Integers, Sequences, FiniteSets

CONSTANTS Xs, Gs, Lbs, Ubs
VARIABLES cs, out
Inf == 1000

Undef == <<-1, 1>>
Tau(x, g, lb, ub) == IF g > 0 THEN (IF lb = -Inf THEN <<Inf, 1>> ELSE <<x - lb, g>>)
                     ELSE IF g < 0 THEN (IF ub = Inf THEN <<Inf, 1>> ELSE <<ub - x, -g>>)
                     ELSE Undef
Lt(a, b) == a[1] * b[2] < b[1] * a[2]
Le(a, b) == a[1] * b[2] <= b[1] * a[2]
Pos(a) == a[1] > 0
MinQ(a, b) == IF Le(a, b) THEN a ELSE b
MaxQ(a, b) == IF Le(a, b) THEN b ELSE a
One == <<1, 1>>

Taus(c) == <<Tau(c.x[1], c.g[1], c.lb[1], c.ub[1]), Tau(c.x[2], c.g[2], c.lb[2], c.ub[2])>>
Smallest(c) == LET t == Taus(c) P == {j \in 1..2 : Pos(t[j])} IN
               IF P = {} THEN One
               ELSE LET m == IF P = {1, 2} THEN MinQ(t[1], t[2]) ELSE t[CHOOSE j \in P : TRUE] IN <<m[1], 2 * m[2]>>
Largest(c) == LET t == Taus(c) IN MaxQ(MaxQ(t[1], t[2]), One)

Cases == [x : Xs, g : Gs, lb : Lbs, ub : Ubs]
Valid(c) == \A j \in 1..2 : c.lb[j] <= c.x[j] /\ c.x[j] <= c.ub[j]
Init == cs \in {c \in Cases : Valid(c)} /\ out = [taus |-> Taus(cs), smallest |-> Smallest(cs), largest |-> Largest(cs)]
Spec == Init /\ [][UNCHANGED <<cs, out>>]_<<cs, out>>

C06_SmallestPositive == Pos(out.smallest)
C06_LargestAtLeastOne == Le(One, out.largest)
C06_SmallestBelowEveryBreakPoint == \A j \in 1..2 : Pos(out.taus[j]) => Lt(out.smallest, out.taus[j])
C06_LargestCoversEveryBreakPoint == \A j \in 1..2 : Le(out.taus[j], out.largest)
=============================================================================
