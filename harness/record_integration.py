"""Recorder for IntegrationSolver.solve (the flow-integration solver): events for spec/IntegrationTrace.tla."""
import sys

import numpy as np

import pygradflow.integration.integration_solver as ig_mod
from harness import oracle
from pygradflow.integration.integration_solver import IntegrationSolver
from pygradflow.integration.restricted_flow import RestrictedFlow


class TracedIntegrationSolver(IntegrationSolver):
    def __init__(self, problem, params):
        super().__init__(problem, params)
        self.raw = []

    def perform_integration(self, curr_t, curr_z, curr_filter, rho):
        res = super().perform_integration(curr_t, curr_z, curr_filter, rho)
        self.raw.append(("int", res.status.name()))
        return res

    def solve(self, x0=None, y0=None):
        orig = RestrictedFlow.residuum
        solver = self

        def residuum(rf, z):
            v = orig(rf, z)
            caller = sys._getframe(1).f_code
            if caller.co_name == "solve" and caller.co_filename.endswith("integration_solver.py"):
                # the residuum test at the loop top (other calls come from the event triggers of the integrator)
                solver.raw.append(("res", bool(v <= solver.params.opt_tol)))
            return v

        RestrictedFlow.residuum = residuum
        try:
            return super().solve(x0, y0)
        finally:
            RestrictedFlow.residuum = orig


def events_of(solver, result, problem, params):
    """Turns the raw log + result into the event list of one run (first a Reset)."""
    evs = [{"ev": "Reset"}]
    raw = solver.raw
    status = result.status.name
    for k, (kind, val) in enumerate(raw):
        last = k == len(raw) - 1
        if kind == "res":
            evs.append({"ev": "Top", "resLe": val, "expired": False, "status": status if last else "none"})
        else:
            evs.append({"ev": "Integrate", "result": val, "limitHit": bool(last and status == "IterationLimit")})
    kkt = {"boundsExact": True, "rows": [], "vars": []}
    if status == "Optimal":
        kkt = oracle.kkt_classes(problem, None, params, result.x, result.y, result.d, rel_slack=1e-6)
    fin = bool(np.isfinite(result.x).all() and np.isfinite(result.y).all() and np.isfinite(result.d).all())
    evs.append({"ev": "Return", "status": status, "iterations": int(result.iterations),
                "limit": -1 if params.iteration_limit is None else int(params.iteration_limit), "kkt": kkt, "finite": fin})
    return evs
