SPECIFICATION TraceSpec
CONSTANTS
  Runs = {"A", "B", "C", "D"}
  Mode = "trace"
  Faithful = {}
  Tabs <- TraceTabs
CONSTRAINT TraceInvs
POSTCONDITION TraceDone
CHECK_DEADLOCK FALSE
