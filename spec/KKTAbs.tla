------------------------------- MODULE KKTAbs -------------------------------
(***************************************************************************)
(* C01: sign/position abstraction of the optimality conditions.            *)
(*                                                                         *)
(* UserKKT(k) is the property as the user reads it, on classes computed    *)
(* by an independent oracle from the returned x, y, d and the user's own   *)
(* problem (tolerances: opt_tol times the power-of-two scale factor of     *)
(* the row / column, plus the code's activity tolerance for "at a bound"). *)
(*                                                                         *)
(* InternalKKT(i) is what Iterate.total_res <= opt_tol decomposes into on  *)
(* the internal slack formulation  c(x) - s = 0, l <= s <= u.  The spec    *)
(* KKTSpec enumerates every combination of internal classes; the          *)
(* invariant Derivation states InternalKKT => UserKKT of every user-level  *)
(* class the abstraction allows.  This fixes -- by model checking, not by  *)
(* reading -- which user-level clauses a Return event may be held to.      *)
(***************************************************************************)
EXTENDS Integers, Sequences, FiniteSets

RowPos == {"below", "atLower", "inside", "atUpper", "above", "atBoth"}
Feasible == {"atLower", "inside", "atUpper", "atBoth"}
Signs == {"neg", "zero", "pos"}

RowOK(rw) ==
  /\ rw.pos \in Feasible
  /\ rw.ysign = "pos" => rw.pos \in {"atUpper", "atBoth"}
  /\ rw.ysign = "neg" => rw.pos \in {"atLower", "atBoth"}

VarOK(v) ==
  /\ v.pos \in Feasible            \* variable bounds: exact, so never below/above
  /\ v.stat = "le"                 \* (grad f + J^T y + d)_j within tolerance
  /\ v.dsign = "pos" => v.pos \in {"atUpper", "atBoth"}
  /\ v.dsign = "neg" => v.pos \in {"atLower", "atBoth"}

UserKKT(k) ==
  /\ k.boundsExact
  /\ \A i \in 1..Len(k.rows) : RowOK(k.rows[i])
  /\ \A j \in 1..Len(k.vars) : VarOK(k.vars[j])

-----------------------------------------------------------------------------
(* Internal side.  A row is an equality (no slack; residual c - l) or has a *)
(* slack s in [l,u] (exactly, by clipping).  Classes:                       *)
(*   spos  position of the slack w.r.t. its bounds at the activity tol.     *)
(*   res   |c - s| (resp. |c - l|) <= tol                                   *)
(*   y     sign class of the multiplier at tol                              *)
(*   ds    sign class of the slack's bound multiplier d_s                   *)
(*   sst   slack stationarity |-y + d_s| <= tol                             *)
IRow == [kind : {"eq", "slack"}, spos : {"atLower", "inside", "atUpper", "atBoth"},
         res : {"le", "gt"}, y : Signs, ds : Signs, sst : {"le", "gt"}]

(* bounds_dual: d_s = max(r,0) at upper, min(r,0) at lower, r at both, 0    *)
(* inside, where r = -(grad L)_s = y for a slack column (Jacobian entry -1).*)
BoundsDualConsistent(i) ==
  i.kind = "slack" =>
    CASE i.spos = "inside"  -> i.ds = "zero"
      [] i.spos = "atUpper" -> i.ds = (IF i.y = "pos" THEN "pos" ELSE "zero")
      [] i.spos = "atLower" -> i.ds = (IF i.y = "neg" THEN "neg" ELSE "zero")
      [] OTHER -> i.ds = i.y

(* -y + d_s within tol  <=>  sign classes agree (both at tolerance tol)     *)
SlackStatConsistent(i) ==
  i.kind = "slack" => (i.sst = "le" <=> i.ds = i.y)

InternalKKT(i) == i.res = "le" /\ (i.kind = "slack" => i.sst = "le")

(* user-level classes compatible with an internal row: the constraint value *)
(* is within tol of the slack, the slack is where spos says.                *)
UserRows(i) ==
  IF i.kind = "eq"
  THEN {[pos |-> IF i.res = "le" THEN "atBoth" ELSE p, ysign |-> i.y] : p \in {"below", "above"}}
  ELSE {[pos |-> p, ysign |-> i.y] :
          p \in IF i.res = "gt" THEN RowPos
                ELSE CASE i.spos = "atLower" -> {"atLower"}
                       [] i.spos = "atUpper" -> {"atUpper"}
                       [] i.spos = "atBoth" -> {"atBoth"}
                       [] OTHER -> {"atLower", "inside", "atUpper"}}

RowDerivation(i) ==
  (BoundsDualConsistent(i) /\ SlackStatConsistent(i) /\ InternalKKT(i))
     => \A u \in UserRows(i) : RowOK(u)

(* Variables: internal = user (scaling only changes units).                 *)
IVar == [pos : Feasible, r : Signs, stat : {"le", "gt"}]
DOf(v) == CASE v.pos = "inside" -> "zero"
            [] v.pos = "atUpper" -> (IF v.r = "pos" THEN "pos" ELSE "zero")
            [] v.pos = "atLower" -> (IF v.r = "neg" THEN "neg" ELSE "zero")
            [] OTHER -> v.r
VarDerivation(v) == v.stat = "le" => VarOK([pos |-> v.pos, stat |-> v.stat, dsign |-> DOf(v)])

=============================================================================
