------------------------------- MODULE Filter -------------------------------
(***************************************************************************)
(* C18: the penalty filter (PenaltyFilter.filter_insert / update).  The    *)
(* state space over a finite grid is finite, so TLC covers ALL histories   *)
(* of insertions of any length (ties and duplicates included).  The        *)
(* variable `last` records the transition that produced the state, so      *)
(* every reachable state is one *edge* (before, pair, verdict, after) that *)
(* is replayed on the real classes (transition coverage).                  *)
(***************************************************************************)
EXTENDS Integers, FiniteSets

CONSTANTS K,      \* grid 0..K-1 in both coordinates
          MaxLev  \* penalty levels 0..MaxLev (level l = rho0 * 10^l), capped

VARIABLES entries, lev, last

Grid == 0..(K - 1)
Dom(f, g) == f[1] <= g[1] /\ f[2] <= g[2]          \* f at least as good as g in both coordinates

Refused(E, p) == \E e \in E : Dom(e, p)
Inserted(E, p) == {e \in E : ~Dom(p, e)} \cup {p}

Init == entries = {} /\ lev = 0 /\ last = [a |-> -1, b |-> -1, ok |-> TRUE, before |-> {}, levBefore |-> 0]

Update(a, b) ==
  LET p == <<a, b>> IN
  IF Refused(entries, p)
  THEN /\ entries' = entries
       /\ lev' = IF lev < MaxLev THEN lev + 1 ELSE lev
       /\ last' = [a |-> a, b |-> b, ok |-> FALSE, before |-> entries, levBefore |-> lev]
  ELSE /\ entries' = Inserted(entries, p)
       /\ lev' = lev
       /\ last' = [a |-> a, b |-> b, ok |-> TRUE, before |-> entries, levBefore |-> lev]

Next == \E a \in Grid, b \in Grid : Update(a, b)
Spec == Init /\ [][Next]_<<entries, lev, last>>

C18_Antichain == \A e, f \in entries : e # f => ~Dom(e, f)
C18_InsertIff == last.a >= 0 => (last.ok <=> ~(\E e \in last.before : Dom(e, <<last.a, last.b>>)))
C18_RemovesExactlyDominated == (last.a >= 0 /\ last.ok) =>
     entries = {e \in last.before : ~Dom(<<last.a, last.b>>, e)} \cup {<<last.a, last.b>>}
C18_RefusedKeeps == (last.a >= 0 /\ ~last.ok) => entries = last.before
C18_VetoRaises == (last.a >= 0 /\ ~last.ok /\ last.levBefore < MaxLev) => lev = last.levBefore + 1
C18_AcceptKeepsLevel == (last.a >= 0 /\ last.ok) => lev = last.levBefore
(* the newest accepted entry is never dominated, no stored entry is ever lost unless dominated *)
C18_Monotone == [][\A e \in entries : e \in entries' \/ \E f \in entries' : Dom(f, e)]_<<entries, lev, last>>
=============================================================================
