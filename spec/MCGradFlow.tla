----------------------------- MODULE MCGradFlow -----------------------------
(***************************************************************************)
(* Model-checking instance of GradFlow: small event spaces for every       *)
(* action.  The numerics are a nondeterministic oracle, memoised in orc,   *)
(* so two runs that ask the same question get the same answer.             *)
(***************************************************************************)
EXTENDS GradFlow

CONSTANTS MaxVal,     \* lamb ranks 0..MaxVal; LambMin = 0, LambMax = MaxVal
          MaxRho,     \* rho ranks 0..MaxRho; 0 is the rank of 0.0
          MaxIter,    \* state constraint on iterations
          MaxK,       \* bound on Newton steps of the exact controller in the model
          MaxF,       \* filter grid 0..MaxF
          CfgSpace(_), \* run -> set of configuration records
          SimBias     \* TRUE only for -simulate runs that feed the replay drivers: biases random walks towards long runs

Min2(a, b) == IF a <= b THEN a ELSE b
Max2(a, b) == IF a >= b THEN a ELSE b

MCTabs(c) ==
  [dbl   |-> [k \in 1..(MaxVal + 1) |-> Min2(k, MaxVal)],
   half  |-> [k \in 1..(MaxVal + 1) |-> Max2(k - 2, 0)],
   inc   |-> [k \in 1..(MaxVal + 1) |-> Min2(k, MaxVal)],
   red   |-> [k \in 1..(MaxVal + 1) |-> Max2(k - 2, 0)],
   recip |-> [k \in 1..(MaxVal + 1) |-> k - 1],
   x10   |-> [k \in 1..(MaxRho + 1) |-> Min2(k, MaxRho)]]

BaseCfg == [ctl |-> "DistRatio", newton |-> "Simplified", pen |-> "DualNorm",
            limit |-> NoLimit, deadline |-> NoDeadline,
            lambInit |-> 1, lambMin |-> 0, lambMax |-> MaxVal, rho0 |-> 1, zero |-> 0,
            collectPath |-> TRUE, ncb |-> 1, display |-> "never", debug |-> FALSE, rcond |-> FALSE,
            m0 |-> FALSE, derivCheck |-> FALSE, algKey |-> 1, twin |-> "none", start |-> 0, wellposed |-> FALSE, startUndef |-> FALSE, validate |-> TRUE]

Ctls == {"Exact", "Fixed", "ResRatio", "DistRatio"}
Pens == {"Constant", "DualNorm", "DualEquil", "Pareto", "ObjFilter", "LagFilter"}

AllPts == {0} \cup UNION {{hist[r][k].pt : k \in 1..Len(hist[r])} : r \in Runs} \cup UNION {{b[1] : b \in bad[r]} : r \in Runs}
NextId == 1 + (CHOOSE x \in AllPts : \A y \in AllPts : y <= x)

Seq2(S) == SetToSeq(S)
KktOK == [boundsExact |-> TRUE, rows |-> <<>>, vars |-> <<>>]
JustOK == [violGt |-> TRUE, infStat |-> TRUE, feas |-> TRUE, objLe |-> TRUE]

RunOrder == <<"A", "B", "C">>
RunIdx(r) == CHOOSE i \in 1..Len(RunOrder) : RunOrder[i] = r
Others(r) == \A o \in Runs : RunIdx(o) < RunIdx(r) => pc[o] \in Terminal    \* sequential composition

MCNewSolve(r) == pc[r] = "Idle" /\ Others(r) /\ \E c \in CfgSpace(r) : NewSolve(r, c)

MCInit(r) ==
  /\ pc[r] = "Init"
  /\ \/ /\ inner[r].nev = 0
        /\ \E ok \in (IF SimBias THEN {TRUE} ELSE BOOLEAN) :
             Eval(r, [comp |-> "obj", phase |-> "init", xid |-> cfg[r].start, inbox |-> TRUE, ok |-> ok, changed |-> <<>>])
     \/ /\ inner[r].nev > 0 /\ inner[r].fault
        /\ Raise(r, [kind |-> "InitEval", changed |-> <<>>])
     \/ /\ inner[r].nev > 0 /\ ~inner[r].fault /\ cfg[r].derivCheck
        /\ Raise(r, [kind |-> "DerivCheck", changed |-> <<>>])
     \/ /\ inner[r].nev > 0 /\ ~inner[r].fault
        /\ InitRho(r, [rho |-> cfg[r].rho0])

Tick(r, site) ==
  LET t == clk[r].t + 1 IN
  Clock(r, [site |-> site, t |-> t, expired |-> (cfg[r].deadline # NoDeadline /\ t >= cfg[r].deadline)])

ObsSpace0 == {[opt |-> o, infeas |-> i, unb |-> u] :
               <<o, i, u>> \in {<<FALSE, FALSE, FALSE>>, <<TRUE, FALSE, FALSE>>, <<FALSE, TRUE, FALSE>>, <<FALSE, FALSE, TRUE>>}}
(* simulation bias: several copies of the "no terminal condition" observation (the pad field is ignored everywhere) *)
ObsSpace == IF SimBias
            THEN {[opt |-> FALSE, infeas |-> FALSE, unb |-> FALSE, pad |-> p] : p \in 1..6}
                 \cup {[opt |-> o.opt, infeas |-> o.infeas, unb |-> o.unb, pad |-> 0] : o \in ObsSpace0}
            ELSE ObsSpace0

MCTop(r) ==
  LET lim == cfg[r].limit # NoLimit /\ iter[r] >= cfg[r].limit
      tl == clk[r].fresh /\ clk[r].site = "terminate" /\ clk[r].expired IN
  /\ pc[r] = "Top"
  /\ IF ~lim /\ ~(clk[r].fresh /\ clk[r].site = "terminate") THEN Tick(r, "terminate")
     ELSE \E o \in ObsSpace :
            CheckTerminate(r, [iter |-> iter[r], cur |-> cur[r], obs |-> o,
                               status |-> IF lim THEN "IterationLimit" ELSE IF tl THEN "TimeLimit" ELSE OrderedStatus(o)])

MCDisp(r) ==
  /\ pc[r] = "Disp"
  \* display_interval = None ("always") has no timer; any finite interval reads the clock in should_display()
  /\ IF cfg[r].display \in {"clock", "never"} /\ clk[r].site # "display" THEN Tick(r, "display")
     ELSE \E d \in BOOLEAN : ShouldDisplay(r, [disp |-> d])

MCBegin(r) ==
  /\ pc[r] = "Begin"
  /\ TrialBegin(r, [from |-> cur[r], rhoUsed |-> rho[r], dt |-> lamb[r], lambUsed |-> lamb[r], disp |-> disp[r]])

KMax(r) == CASE cfg[r].ctl = "Exact" -> MaxK [] cfg[r].ctl = "DistRatio" -> 2 [] OTHER -> 1

MCInTrial(r) ==
  LET t == trial[r]
      stopped == inner[r].fault \/ inner[r].dl
      needRead == cfg[r].ctl = "Exact" /\ inner[r].rd < inner[r].k IN
  /\ pc[r] = "InTrial"
  /\ \/ /\ ~stopped /\ ~needRead /\ inner[r].nev = 0 /\ ~SimBias
        /\ \E ok \in BOOLEAN :
             Eval(r, [comp |-> "cons", phase |-> "trial", xid |-> NextId, inbox |-> TRUE, ok |-> ok, changed |-> <<>>])
     \/ /\ ~stopped /\ ~needRead /\ inner[r].ls = 0
        /\ \E rs \in {"none", "LinearSolverError"} :
             Lin(r, [op |-> "solve", raised |-> rs, finite |-> TRUE, resOK |-> TRUE, phase |-> "trial"])
     \/ /\ ~stopped /\ ~needRead /\ cfg[r].rcond /\ inner[r].k >= 1 /\ ~inner[r].rcf
        /\ Lin(r, [op |-> "solve", raised |-> "LinearSolverError", finite |-> TRUE, resOK |-> TRUE, phase |-> "rcond"])   \* a failed estimate is "no estimate"
     \/ /\ ~stopped /\ ~needRead /\ inner[r].k < KMax(r)
        /\ NewtonStep(r, [k |-> inner[r].k, raised |-> "none", trialArgs |-> TRUE])
     \/ /\ ~stopped /\ needRead
        /\ Tick(r, "inner")
     \/ /\ stopped
        /\ TrialEnd(r, [kind |-> "fail", pt |-> t.from, ptx |-> t.from, accepted |-> FALSE,
                        lambNext |-> IF inner[r].dl /\ "F8" \notin Faithful THEN t.lambUsed ELSE Dbl(r, t.lambUsed),
                        inbox |-> TRUE, resClass |-> "na"])
     \/ /\ ~stopped /\ ~needRead /\ inner[r].k >= 1
        /\ \E kind \in {"accept", "reject"} :
           \E ln \in 0..MaxVal :
             TrialEnd(r, [kind |-> kind, pt |-> NextId, ptx |-> NextId, accepted |-> (kind = "accept"),
                          lambNext |-> ln, inbox |-> TRUE, resClass |-> "le"])

FiltSeq(S) == Seq2(S)

MCPenaltyEvents(r) ==
  LET p == cfg[r].pen
      pr == prho[r] IN
  CASE p = "Constant" ->
         {[prhoBefore |-> pr, prhoAfter |-> pr, nextRho |-> cfg[r].rho0, ok |-> TRUE, ynorm |-> 0,
           entry |-> <<0, 0>>, filtBefore |-> <<>>, filtAfter |-> <<>>]}
    [] p = "DualNorm" ->
         {[prhoBefore |-> pr,
           prhoAfter |-> IF ~cfg[r].m0 /\ X10(r, pr) <= yn THEN Min2(yn, X10(r, pr)) ELSE pr,
           nextRho |-> IF ~cfg[r].m0 /\ X10(r, pr) <= yn THEN Min2(yn, X10(r, pr)) ELSE pr,
           ok |-> TRUE, ynorm |-> yn, entry |-> <<0, 0>>, filtBefore |-> <<>>, filtAfter |-> <<>>] : yn \in 0..MaxRho}
    [] p \in {"DualEquil", "Pareto"} ->
         {[prhoBefore |-> pr, prhoAfter |-> nr, nextRho |-> nr, ok |-> TRUE, ynorm |-> 0,
           entry |-> <<0, 0>>, filtBefore |-> <<>>, filtAfter |-> <<>>] : nr \in {pr, X10(r, pr)}}
    [] OTHER ->
         {LET en == <<a, b>>
              refused == \E f \in filt[r] : Dom(f, en)
              nr == IF refused THEN X10(r, pr) ELSE pr IN
          [prhoBefore |-> pr, prhoAfter |-> nr, nextRho |-> nr, ok |-> ~refused, ynorm |-> 0, entry |-> en,
           filtBefore |-> FiltSeq(filt[r]),
           filtAfter |-> FiltSeq(IF refused THEN filt[r] ELSE FilterInsert(filt[r], en))] : a \in 0..MaxF, b \in 0..MaxF}

MCPost(r) ==
  LET t == trial[r] IN
  /\ pc[r] = "Post"
  /\ \/ /\ Le(cfg[r].lambMax, t.lambNext) /\ ~post[r].n
        /\ Raise(r, [kind |-> "LambMax", changed |-> <<>>])
     \/ /\ cfg[r].ncb > 0
        /\ Notify(r, [from |-> cur[r], to |-> t.pt, accept |-> t.accepted, fromInbox |-> TRUE, toInbox |-> TRUE,
                      solverRho |-> rho[r]])
     \/ Row(r, [raised |-> "none"])
     \/ \E e \in MCPenaltyEvents(r) : PenaltyUpdate(r, e)
     \/ Commit(r)

MCFin(r) ==
  /\ pc[r] = "Fin"
  /\ Return(r, [status |-> status[r], iterations |-> iter[r], accepted |-> nacc[r],
                x |-> cur[r], y |-> 0, d |-> 0, xFrom |-> <<cur[r]>>, finite |-> TRUE, xInbox |-> TRUE,
                distGe1 |-> TRUE, path |-> path[r], mtime0 |-> TRUE,
                mtimeSteps |-> [k \in 1..Len(ptime[r]) |-> <<ptime[r][k]>>],
                changed |-> <<>>, kkt |-> KktOK, just |-> JustOK])

MCNext == \E r \in Runs :
  MCNewSolve(r) \/ MCInit(r) \/ MCTop(r) \/ MCDisp(r) \/ MCBegin(r) \/ MCInTrial(r) \/ MCPost(r) \/ MCFin(r)

MCSpec == Init /\ [][MCNext]_vars
MCFairSpec == MCSpec /\ WF_vars(MCNext)

Bound == \A r \in Runs : iter[r] <= MaxIter /\ Len(hist[r]) <= MaxIter

(* liveness: a run with an iteration limit terminates (no state constraint) *)
C02_LimitedRunsTerminate == \A r \in Runs :
   (pc[r] = "Init" /\ cfg[r].limit # NoLimit) ~> (pc[r] \in Terminal)

TypeOK ==
  /\ \A r \in Runs : pc[r] \in {"Idle", "Init", "Top", "Disp", "Begin", "InTrial", "Post", "Fin", "Done", "Raised"}
  /\ \A r \in Runs : iter[r] \in Nat /\ nacc[r] \in Nat /\ lamb[r] \in -1..MaxVal /\ rho[r] \in -1..MaxRho

(* ---- configuration spaces ---- *)
Limits == {NoLimit, 0, 1, 2}
SmallCfgs(r) == {[BaseCfg EXCEPT !.ctl = c, !.pen = p, !.limit = l] : c \in Ctls, p \in Pens, l \in Limits}
DeadlineCfgs(r) == {[BaseCfg EXCEPT !.ctl = c, !.deadline = d, !.display = ds, !.limit = l] :
                      c \in {"Exact", "DistRatio"}, d \in 1..8, ds \in {"never", "clock"}, l \in {NoLimit, 2}}
ObserverCfgs(r) == {[BaseCfg EXCEPT !.ctl = c, !.display = ds, !.ncb = n, !.collectPath = cp] :
                      c \in {"Exact", "DistRatio"}, ds \in {"never", "always", "clock"}, n \in {0, 1}, cp \in BOOLEAN}
(* twins: run A is the reference, run B varies the studied dimension only *)
TwinStopCfgs(r) == IF r = "A" THEN {[BaseCfg EXCEPT !.ctl = c, !.pen = p, !.twin = "C08"] : c \in {"Exact", "DistRatio"}, p \in {"DualNorm", "ObjFilter"}}
                   ELSE {[cfg["A"] EXCEPT !.limit = l, !.deadline = d] : l \in {NoLimit, 1, 2}, d \in {NoDeadline} \cup 1..7}
TwinObsCfgs(r) == IF r = "A" THEN {[BaseCfg EXCEPT !.ctl = c, !.pen = p, !.twin = "C09", !.ncb = 0, !.collectPath = FALSE, !.limit = 2] : c \in {"Exact", "DistRatio"}, p \in {"DualNorm", "ObjFilter"}}
                  ELSE {[cfg["A"] EXCEPT !.display = ds, !.ncb = n, !.collectPath = cp, !.debug = drc[1], !.rcond = drc[2]] :
                          ds \in {"never", "always", "clock"}, n \in {0, 1}, cp \in BOOLEAN,
                          drc \in {<<FALSE, FALSE>>, <<TRUE, FALSE>>, <<FALSE, TRUE>>}}
TwinHistCfgs(r) == IF r = "A" THEN {[BaseCfg EXCEPT !.ctl = c, !.pen = "ObjFilter", !.algKey = 2, !.twin = "C10", !.limit = 1] : c \in {"Exact", "DistRatio"}}
                   ELSE {[BaseCfg EXCEPT !.ctl = c, !.pen = "ObjFilter", !.twin = "C10", !.limit = 1] : c \in {"Exact", "DistRatio"}}

(* simulation / replay space: one run, every controller, policy, limit, deadline and display mode *)
SimCfgs(r) == {[BaseCfg EXCEPT !.ctl = c, !.pen = p, !.limit = l, !.deadline = d, !.display = ds, !.collectPath = TRUE] :
                 c \in Ctls, p \in Pens, l \in {NoLimit, 0, 1, 2, 3, 4}, d \in {NoDeadline} \cup 2..14, ds \in {"never", "always", "clock"}}
(* liveness: only limited runs, so the state space is finite without a state constraint *)
LiveCfgs(r) == {[BaseCfg EXCEPT !.ctl = c, !.pen = p, !.limit = l] : c \in {"Exact", "DistRatio"}, p \in {"DualNorm", "ObjFilter"}, l \in {0, 1, 2}}
(* quick-tier spaces *)
QDeadlineCfgs(r) == {[BaseCfg EXCEPT !.ctl = c, !.deadline = d, !.display = ds] :
                      c \in {"Exact", "DistRatio"}, d \in 1..6, ds \in {"never", "clock"}}
QObserverCfgs(r) == {[BaseCfg EXCEPT !.ctl = "Exact", !.display = ds, !.ncb = n, !.collectPath = cp] :
                      ds \in {"never", "always", "clock"}, n \in {0, 1}, cp \in BOOLEAN}
QTwinStopCfgs(r) == IF r = "A" THEN {[BaseCfg EXCEPT !.ctl = "Exact", !.pen = "ObjFilter", !.twin = "C08"]}
                    ELSE {[cfg["A"] EXCEPT !.limit = l, !.deadline = d] : l \in {NoLimit, 1}, d \in {NoDeadline} \cup 1..6}
QTwinObsCfgs(r) == IF r = "A" THEN {[BaseCfg EXCEPT !.ctl = "Exact", !.pen = "DualNorm", !.twin = "C09", !.ncb = 0, !.collectPath = FALSE, !.limit = 2]}
                   ELSE {[cfg["A"] EXCEPT !.display = ds, !.ncb = n, !.collectPath = cp, !.debug = TRUE, !.rcond = rc] :
                          ds \in {"always", "clock"}, n \in {0, 1}, cp \in {TRUE}, rc \in BOOLEAN}
QTwinHistCfgs(r) == IF r = "A" THEN {[BaseCfg EXCEPT !.pen = "ObjFilter", !.algKey = 2, !.twin = "C10", !.limit = 1]}
                    ELSE {[BaseCfg EXCEPT !.pen = "ObjFilter", !.twin = "C10", !.limit = 1]}
=============================================================================
