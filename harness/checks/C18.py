"""C18 the penalty filter is a Pareto front: MC over all histories on a grid + full transition-coverage replay."""
import numpy as np

from harness.checklib import Check
from harness.checks.common import family_spec
from harness import gen
from pygradflow.params import Params, PenaltyUpdate, Precision
from pygradflow.penalty import LagrangianPenaltyFilter, ObjectivePenaltyFilter
from pygradflow.problem import Problem

MAPS = [
    [0.0, 1.0, 2.0, 3.0, 4.0, 5.0],
    [-1e308, -1.0, -5e-324, 0.0, 5e-324, 1e308],
    [1.0, 1.0000000000000002, 1.0000000000000004, 2.0, 1e16, float("inf")],
]


class _Stub(Problem):
    def __init__(self):
        super().__init__(np.zeros(1), np.ones(1), num_cons=1)

    def obj(self, x):
        return 0.0

    def obj_grad(self, x):
        return np.zeros(1)

    def lag_hess(self, x, y):
        raise NotImplementedError


class _It:
    def __init__(self, a, b):
        self.obj = a
        self.cons_violation = b


def replay_edges(chk, states):
    prob = _Stub()
    n = 0
    for si, st in enumerate(states):
        last = st["last"]
        if last["a"] < 0:
            continue
        for mi, (ma, mb) in enumerate([(MAPS[0], MAPS[0]), (MAPS[1], MAPS[2]), (MAPS[2], MAPS[1])]):
            if mi > 0 and (si % 3) != 0 and not chk.thorough:
                continue
            # the pairs are compared and stored as given, whatever working precision the solver was configured with:
            # the maps with 1-ulp neighbours / denormals / 1e308 collapse under a float32 rounding (seed C18-i)
            for cls, prec in [(c, q) for c in (ObjectivePenaltyFilter, LagrangianPenaltyFilter)
                              for q in ((Precision.Double, Precision.Single) if mi > 0 else (Precision.Double,))]:
                rho0 = 0.5
                flt = cls(prob, Params(rho=rho0, precision=prec))
                before = sorted((ma[a], mb[b]) for (a, b) in last["before"])
                if (si + mi) % 2:
                    before.reverse()
                flt.entries = list(before)
                rho_before = rho0
                for _ in range(last["levBefore"]):
                    rho_before *= 10.0
                flt.rho = rho_before
                pa, pb = ma[last["a"]], mb[last["b"]]
                flt.iterate_entry = lambda it, pa=pa, pb=pb: (pa, pb)
                res = flt.update(None, _It(pa, pb))
                n += 1
                chk.case(("edge", si, mi, cls.__name__, prec.name))
                exp_entries = set((ma[a], mb[b]) for (a, b) in st["entries"])
                exp_rho = rho_before if last["ok"] else rho_before * 10.0
                got = [tuple(e) for e in flt.entries]
                problems = []
                if bool(res.accept) != last["ok"]:
                    problems.append("verdict")
                if set(got) != exp_entries or len(got) != len(set(got)) and last["ok"]:
                    problems.append("entries")
                if flt.rho != exp_rho or res.next_rho != exp_rho:
                    problems.append("rho")
                if any(got[i] != got[j] and got[i][0] <= got[j][0] and got[i][1] <= got[j][1]
                       for i in range(len(got)) for j in range(len(got)) if i != j):
                    problems.append("antichain")
                if problems:
                    chk.kernel_violation(("filter.edge." + "+".join(problems), cls.__name__),
                                         {"precision": prec.name, "before": before, "pair": [pa, pb], "spec_ok": last["ok"], "got_accept": bool(res.accept),
                                          "got_entries": got, "spec_entries": sorted(exp_entries), "rho": [rho_before, flt.rho, exp_rho]})
    return n


def tv_groups(n, seed):
    rng = np.random.default_rng(seed)
    gs = []
    for i in range(n):
        pk = gen.random_params(rng, iteration_limit=40,
                               penalty_update=[PenaltyUpdate.ObjectiveFilter, PenaltyUpdate.LagrangianFilter][i % 2])
        gs.append({"tag": "C18", "runs": [{"prob": family_spec(i, rng), "params": pk}]})
    return gs


def long_fronts(chk, n_seq, seed):
    """Fronts far larger than the grid of Filter.tla: long random sequences whose Pareto front grows to 30-80 entries, driven
    through update() and compared step by step with a reference implementation of the statement (exploration-grade)."""
    rng = np.random.default_rng(seed + 18)
    prob = _Stub()
    for t in range(n_seq):
        N = int(rng.integers(30, 80))
        chain = [(float(k), float(N - k)) for k in range(N)]
        rng.shuffle(chain)
        probes = [(a + 0.5, b + 0.5) for (a, b) in chain[: N // 3]] + [(a, b) for (a, b) in chain[N // 3: N // 2]]
        sweepers = [(float(N // 4), float(N // 4)), (-1.0, float(N)), (0.0, 0.0)]
        seq = chain + probes + sweepers + [(float(rng.integers(-2, N + 2)), float(rng.integers(-2, N + 2))) for _ in range(40)]
        if t % 2:
            # every other sequence: coordinates that are distinct doubles but equal float32 values, filter built for Single
            seq = [(a * (1.0 + 2.0 ** -40) + 2.0 ** -45, b * (1.0 - 2.0 ** -41) - 2.0 ** -44) for (a, b) in seq] + seq
        for cls in (ObjectivePenaltyFilter, LagrangianPenaltyFilter):
            flt = cls(prob, Params(rho=0.5, precision=Precision.Single if t % 2 else Precision.Double))
            cur = {"p": None}
            flt.iterate_entry = lambda it: cur["p"]
            flt.initial(_It(0.0, 0.0)) if hasattr(flt, "initial") else None
            flt.entries = []
            ref, rho = [], flt.rho
            for step, p in enumerate(seq):
                cur["p"] = p
                res = flt.update(_It(*p), _It(*p))
                refused = any(e[0] <= p[0] and e[1] <= p[1] for e in ref)
                if refused:
                    rho *= 10.0
                else:
                    ref = [e for e in ref if not (p[0] <= e[0] and p[1] <= e[1])] + [p]
                ok = (bool(res.accept) == (not refused) and float(res.next_rho) == rho and
                      sorted(flt.entries) == sorted(ref))
                chk.case(("longfront", t, cls.__name__, step))
                if not ok:
                    chk.kernel_violation(("filter.longfront", cls.__name__),
                                         {"front_size": len(ref), "step": step, "point": list(p), "refused_expected": refused,
                                          "accept_observed": bool(res.accept), "rho_expected": rho, "rho_observed": float(res.next_rho),
                                          "entries_observed": len(flt.entries)})
                    break


def main():
    chk = Check("C18")
    # unbounded integers: the antichain property is an inductive invariant of filter_insert (Apalache, symbolic)
    chk.apalache("FilterInd.tla", "Init", "IndInv", 0, "base case: the empty filter is an antichain")
    chk.apalache("FilterInd.tla", "IndInit", "IndInv", 1, "inductive step: Antichain /\\ Insert(a,b) => Antichain' for all integers a,b")
    states = chk.mc_dump("Filter_k5.cfg" if chk.thorough else "Filter_k3.cfg", "Filter.tla")
    if chk.thorough:
        chk.mc_dump("Filter_k4.cfg", "Filter.tla")
    if states is not None:
        n = replay_edges(chk, states)
        chk.samples.append({"edge": {k: (sorted(v) if isinstance(v, frozenset) else v) for k, v in
                                     dict(states[min(7, len(states) - 1)]["last"], after=states[min(7, len(states) - 1)]["entries"]).items()}})
        chk.traces += n
    long_fronts(chk, 40 if chk.thorough else 6, chk.seed)
    chk.tv(tv_groups(300 if chk.thorough else 40, chk.seed), "C18 end-to-end")
    return chk.finish(rule="Filter.tla is finite on a KxK grid: TLC covers all insertion histories (ties, duplicates); every reachable "
                           "state is one edge (before, pair, verdict, after) and is replayed on ObjectivePenaltyFilter and "
                           "LagrangianPenaltyFilter under three order-preserving rank->float maps (incl. denormals, 1ulp neighbours, "
                           "inf); end-to-end filter-policy traces are validated against the same Dom/FilterInsert operators",
                      extra_cov={"exhaustive": True})
