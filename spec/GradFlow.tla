------------------------------ MODULE GradFlow ------------------------------
(***************************************************************************)
(* Solve state machine of pygradflow (Solver.solve and everything it       *)
(* drives).  One named action per critical section of the code; every      *)
(* action takes an *event record* e holding what the environment (the      *)
(* numerics, the clock, the user's callbacks) decided at that point.       *)
(*                                                                         *)
(*  - Mode = "mc":    e ranges over small event spaces (MCGradFlow.tla);   *)
(*                    clauses Cl(..) are guards of the model.              *)
(*  - Mode = "trace": e is the next line of a recorded execution           *)
(*                    (GradFlowTrace.tla); clauses are *tests*: a failing  *)
(*                    clause is noted (tag, name, line) and the state      *)
(*                    update still happens, so verdicts are total.         *)
(*                                                                         *)
(* Clause tags: "P:Cxx" = part of listed property Cxx, "M" = model         *)
(* fidelity (spec drift), "S" = structural (machinery).                    *)
(* Numbers are order-isomorphic ranks, arrays are interned ids (DESIGN 3). *)
(***************************************************************************)
EXTENDS Integers, Sequences, FiniteSets, TLC, SequencesExt, KKTAbs

CONSTANTS Runs, Mode,
          Faithful,    \* names of known defects of the code that the model reproduces instead of the intended design
          Tabs(_)      \* cfg record -> [dbl, half, inc, red, recip, x10 : rank -> rank] (sequences, index rank+1)

VARIABLES pos,      \* trace mode: index of the next event; mc: 0
          pc, cfg, cur, lamb, rho, prho, filt, iter, nacc, nnot, ymax,
          trial, inner, post, pen, hist, path, ptime,
          status, err, result, bad, clk, disp, dlx,
          orc,      \* shared memo of the deterministic-but-unknown numerics
          viol      \* mc mode: names of property clauses (tag P:Cxx) that failed on the way here

algVars == <<cur, lamb, rho, prho, filt, iter, nacc, trial, pen, hist, status, err, result, ymax>>
obsVars == <<nnot, post, disp, clk, dlx, path, ptime, bad, inner>>
vars == <<pos, pc, cfg, algVars, obsVars, orc, viol>>

NoRho == -1
NoLimit == -1
NoDeadline == -1
NaNr == -9
NoPt == -1

Le(a, b) == a # NaNr /\ b # NaNr /\ a <= b
Lt(a, b) == a # NaNr /\ b # NaNr /\ a < b
MaxR(a, b) == IF a >= b THEN a ELSE b
MinR(a, b) == IF a <= b THEN a ELSE b

Look(tab, v) == IF v >= 0 /\ v < Len(tab) THEN tab[v + 1] ELSE -1
Dbl(r, v)   == Look(Tabs(cfg[r]).dbl, v)
Half(r, v)  == Look(Tabs(cfg[r]).half, v)
Inc(r, v)   == Look(Tabs(cfg[r]).inc, v)
Red(r, v)   == Look(Tabs(cfg[r]).red, v)
Recip(r, v) == Look(Tabs(cfg[r]).recip, v)
X10(r, v)   == Look(Tabs(cfg[r]).x10, v)

Note(t, n) == TLCSet(1, Append(TLCGet(1), <<pos, t, n>>))
Cl(t, n, F) == IF Mode = "mc" THEN F ELSE (IF F THEN TRUE ELSE Note(t, n))

(* Property clauses.  PS(<< <<tag, name, F>>, ... >>) is one conjunct of an action:            *)
(*   mc:    never a guard -- failing names are accumulated in viol, and NoViolation is checked  *)
(*          as an invariant, so TLC *proves* (within bounds) that the modelled behaviour of the *)
(*          code implies every property clause;                                                 *)
(*   trace: each failing clause is noted with its tag.                                          *)
PS(L) == IF Mode = "mc"
         THEN viol' = viol \cup {L[i][2] : i \in {j \in 1..Len(L) : ~L[j][3]}}
         ELSE /\ \A i \in 1..Len(L) : IF L[i][3] THEN TRUE ELSE Note(L[i][1], L[i][2])
              /\ viol' = viol
NoViolation == viol = {}

Statuses == {"Optimal", "IterationLimit", "TimeLimit", "Unbounded", "LocallyInfeasible"}
DeliberateErrs == {"InitEval", "LambMax", "LineSearch", "DerivCheck"}
Terminal == {"Done", "Raised"}

NoTrial == [from |-> NoPt, rhoUsed |-> NoRho, lambUsed |-> -1, dt |-> -1, kind |-> "none",
            pt |-> NoPt, lambNext |-> -1, accepted |-> FALSE, cause |-> "none"]
InnerInit == [k |-> 0, fault |-> FALSE, rcf |-> FALSE, dl |-> FALSE, nev |-> 0, ls |-> 0, rd |-> 0, nh |-> 0, nf |-> 0]
PostInit == [n |-> FALSE, w |-> FALSE, p |-> FALSE]
NoPen == [nextRho |-> NoRho, ok |-> FALSE, ynorm |-> 0, entry |-> <<0, 0>>]
ClkInit == [t |-> 0, site |-> "none", expired |-> FALSE, fresh |-> FALSE, reads |-> 0]
NoResult == [status |-> "none", x |-> NoPt, iterations |-> -1, accepted |-> -1]

InitRun(r) ==
  /\ pc[r] = "Idle" /\ cur[r] = NoPt /\ lamb[r] = -1 /\ rho[r] = NoRho /\ prho[r] = NoRho
  /\ filt[r] = {} /\ iter[r] = 0 /\ nacc[r] = 0 /\ nnot[r] = 0 /\ ymax[r] = 0
  /\ trial[r] = NoTrial /\ inner[r] = InnerInit /\ post[r] = PostInit /\ pen[r] = NoPen
  /\ hist[r] = <<>> /\ path[r] = <<>> /\ ptime[r] = <<>>
  /\ status[r] = "none" /\ err[r] = "none" /\ result[r] = NoResult /\ bad[r] = {}
  /\ clk[r] = ClkInit /\ disp[r] = FALSE /\ dlx[r] = FALSE

NoCfg == [ctl |-> "none"]

Init ==
  /\ pos = IF Mode = "mc" THEN 0 ELSE 1
  /\ pc = [r \in Runs |-> "Idle"] /\ cfg = [r \in Runs |-> NoCfg]
  /\ cur = [r \in Runs |-> NoPt] /\ lamb = [r \in Runs |-> -1]
  /\ rho = [r \in Runs |-> NoRho] /\ prho = [r \in Runs |-> NoRho]
  /\ filt = [r \in Runs |-> {}] /\ iter = [r \in Runs |-> 0] /\ nacc = [r \in Runs |-> 0]
  /\ nnot = [r \in Runs |-> 0] /\ ymax = [r \in Runs |-> 0]
  /\ trial = [r \in Runs |-> NoTrial] /\ inner = [r \in Runs |-> InnerInit]
  /\ post = [r \in Runs |-> PostInit] /\ pen = [r \in Runs |-> NoPen]
  /\ hist = [r \in Runs |-> <<>>] /\ path = [r \in Runs |-> <<>>] /\ ptime = [r \in Runs |-> <<>>]
  /\ status = [r \in Runs |-> "none"] /\ err = [r \in Runs |-> "none"]
  /\ result = [r \in Runs |-> NoResult] /\ bad = [r \in Runs |-> {}]
  /\ clk = [r \in Runs |-> ClkInit] /\ disp = [r \in Runs |-> FALSE] /\ dlx = [r \in Runs |-> FALSE]
  /\ orc = <<>>
  /\ viol = {}

Step == pos' = IF Mode = "mc" THEN 0 ELSE pos + 1

TwinTag(r) == IF pc[r] = "Idle" \/ cfg[r].twin = "none" THEN "M" ELSE "P:" \o cfg[r].twin

NoMemo(r) == Mode = "trace" /\ cfg[r].twin = "none"     \* single traced runs need no memo (keeps states small)
Memo(q, a) == IF q \in DOMAIN orc THEN orc ELSE (q :> a) @@ orc
MemoOK(q, a) == q \in DOMAIN orc => orc[q] = a

-----------------------------------------------------------------------------
(* solve() entry: every piece of per-solve state is re-created from the     *)
(* configuration alone (C10).                                               *)
NewSolve(r, c) ==
  /\ Cl("M", "NewSolve.pc", pc[r] = "Idle")
  /\ cfg' = [cfg EXCEPT ![r] = [k \in (DOMAIN c) \ {"tabs"} |-> c[k]]]   \* the rank tables stay in the trace
  /\ pc' = [pc EXCEPT ![r] = "Init"]
  /\ cur' = [cur EXCEPT ![r] = c.start]
  /\ lamb' = [lamb EXCEPT ![r] = c.lambInit]
  /\ path' = [path EXCEPT ![r] = IF c.collectPath THEN <<c.start>> ELSE <<>>]
  /\ Step
  /\ UNCHANGED <<viol, rho, prho, filt, iter, nacc, nnot, ymax, trial, inner, post, pen, hist, ptime,
                 status, err, result, bad, clk, disp, dlx, orc>>

ExemptPhases == {"scaling", "derivcheck"}
FaultPhases == {"trial", "linesearch", "init", "stats", "transform"}

PhaseOK(p, ph) ==
  CASE ph \in {"scaling"} -> TRUE
    [] ph \in {"transform", "init", "stats", "derivcheck", "penalty.initial"} -> p = "Init"
    [] ph = "terminate" -> p = "Top"
    [] ph \in {"trial", "linesearch"} -> p = "InTrial"
    [] ph = "display" -> p \in {"InTrial", "Post"}
    [] ph \in {"penalty", "callback"} -> p = "Post"
    [] ph = "result" -> p = "Fin"
    [] OTHER -> FALSE

(* One call of a user callback (through the evaluator or directly).         *)
Eval(r, e) ==
  /\ Cl("M", "Eval.pc", pc[r] \notin Terminal)
  /\ Cl("S", "Eval.phase.known", e.phase # "unknown")
  /\ Cl("M", "eval.phase", PhaseOK(pc[r], e.phase))
  /\ Cl(TwinTag(r), "twin.eval", (pc[r] # "Idle" /\ cfg[r].twin # "none" /\ e.xid # NoPt)
                                   => MemoOK(<<cfg[r].algKey, "eval", e.comp, e.xid>>, e.ok))
  /\ PS(<<
        <<"P:C05", "eval.inbox", e.phase \notin ExemptPhases => e.inbox>>,
        <<"P:C11", "eval.callerdata", e.changed = <<>>>>,
        \* a function that is undefined AT the starting point (a persistent failure there) is discovered by the initial
        \* evaluation -- whose failure is reported by the dedicated error -- not later inside a trial
        <<"P:C07", "start.fault.at.init", (pc[r] # "Idle" /\ cfg[r].startUndef /\ e.xid = cfg[r].start /\ ~e.ok) => pc[r] = "Init">>
     >>)
  /\ orc' = IF pc[r] # "Idle" /\ cfg[r].twin # "none" /\ e.xid # NoPt
            THEN Memo(<<cfg[r].algKey, "eval", e.comp, e.xid>>, e.ok) ELSE orc
  \* a failed evaluation taints (point, component) until that component is evaluated successfully there again
  /\ bad' = [bad EXCEPT ![r] = IF e.xid = NoPt THEN @
                                ELSE IF e.ok THEN @ \ {<<e.xid, e.comp>>} ELSE @ \cup {<<e.xid, e.comp>>}]
  /\ inner' = [inner EXCEPT ![r] = [@ EXCEPT !.fault = @ \/ (~e.ok /\ e.phase \in FaultPhases),
                                            !.nev = IF Mode = "mc" THEN @ + 1 ELSE @,
                                            !.nh = IF e.comp = "lag_hess" /\ e.phase \in {"trial", "linesearch"} THEN @ + 1 ELSE @]]
  /\ Step
  /\ UNCHANGED <<pc, cfg, algVars, nnot, post, disp, clk, dlx, path, ptime>>

(* One read of time.time().                                                 *)
Clock(r, e) ==
  /\ Cl("M", "Clock.pc", pc[r] \notin (Terminal \cup {"Idle"}))
  /\ Cl("M", "clock.monotone", Le(clk[r].t, e.t))
  /\ Cl("M", "clock.expired", e.site \in {"terminate", "inner"} =>
           (e.expired <=> (cfg[r].deadline # NoDeadline /\ Le(cfg[r].deadline, e.t))))
  /\ Cl("M", "clock.site", CASE e.site = "terminate" -> pc[r] = "Top"
                             [] e.site = "inner" -> pc[r] = "InTrial" /\ cfg[r].ctl = "Exact"
                             [] OTHER -> TRUE)
  /\ clk' = [clk EXCEPT ![r] = [t |-> e.t, site |-> e.site, expired |-> e.expired,
                                fresh |-> TRUE, reads |-> @.reads + 1]]
  /\ dlx' = [dlx EXCEPT ![r] = @ \/ (e.site \in {"terminate", "inner"} /\ e.expired)]
  /\ inner' = [inner EXCEPT ![r] = [@ EXCEPT !.dl = @ \/ (e.site = "inner" /\ e.expired),
                                            !.rd = IF e.site = "inner" THEN @ + 1 ELSE @]]
  /\ Step
  /\ UNCHANGED <<viol, pc, cfg, algVars, nnot, post, disp, path, ptime, bad, orc>>

(* penalty_strategy.initial(): the only place rho leaves its sentinel.      *)
InitRho(r, e) ==
  /\ Cl("M", "InitRho.pc", pc[r] = "Init")
  /\ Cl("M", "initrho.params", e.rho = cfg[r].rho0)
  /\ rho' = [rho EXCEPT ![r] = e.rho]
  /\ prho' = [prho EXCEPT ![r] = e.rho]
  /\ pc' = [pc EXCEPT ![r] = "Top"]
  /\ inner' = [inner EXCEPT ![r] = InnerInit]
  /\ Step
  /\ UNCHANGED <<viol, cfg, cur, lamb, filt, iter, nacc, trial, pen, hist, status, err, result, ymax,
                 nnot, post, disp, clk, dlx, path, ptime, bad, orc>>

OrderedStatus(o) == IF o.opt THEN "Optimal" ELSE IF o.infeas THEN "LocallyInfeasible"
                    ELSE IF o.unb THEN "Unbounded" ELSE "none"

(* Solver._check_terminate: ordered tests, before any state change.         *)
CheckTerminate(r, e) ==
  LET lim == cfg[r].limit # NoLimit /\ iter[r] >= cfg[r].limit
      tl  == clk[r].fresh /\ clk[r].site = "terminate" /\ clk[r].expired
      q   == <<cfg[r].algKey, "obs", cur[r]>>
  IN
  /\ Cl("M", "CheckTerminate.pc", pc[r] = "Top")
  /\ Cl("M", "timelimit.when", (~lim /\ tl) => e.status = "TimeLimit")
  /\ Cl("M", "status.order", (~lim /\ ~tl) => e.status = OrderedStatus(e.obs))
  /\ Cl(TwinTag(r), "twin.obs", (~lim /\ ~tl) => MemoOK(q, e.obs))
  /\ PS(<<
        <<"P:C12", "check.iter", e.iter = iter[r]>>,
        <<"P:C12", "check.cur", e.cur = cur[r]>>,
        <<"P:C02", "iterlimit.iff", (e.status = "IterationLimit") <=> lim>>,
        <<"P:C02", "timelimit.after", e.status = "TimeLimit" => tl>>,
        <<"P:C08", "deadline.stops", (~lim /\ dlx[r]) => e.status = "TimeLimit">>,
        <<"P:C08", "limit.after.k.trials", e.status = "IterationLimit" => Len(hist[r]) = cfg[r].limit>>
     >>)
  /\ orc' = IF lim \/ tl \/ NoMemo(r) THEN orc ELSE Memo(q, e.obs)
  /\ status' = [status EXCEPT ![r] = e.status]
  /\ pc' = [pc EXCEPT ![r] = IF e.status = "none" THEN "Disp" ELSE "Fin"]
  /\ clk' = [clk EXCEPT ![r] = [@ EXCEPT !.fresh = FALSE]]
  /\ Step
  /\ UNCHANGED <<cfg, cur, lamb, rho, prho, filt, iter, nacc, trial, pen, hist, err, result, ymax,
                 nnot, post, disp, dlx, path, ptime, bad, inner>>

(* display.should_display(): an observer decision, never algorithmic.       *)
ShouldDisplay(r, e) ==
  /\ Cl("M", "ShouldDisplay.pc", pc[r] = "Disp")
  /\ Cl("M", "display.mode", (cfg[r].display = "always" => e.disp) /\ (cfg[r].display = "never" => ~e.disp))
  /\ disp' = [disp EXCEPT ![r] = e.disp]
  /\ pc' = [pc EXCEPT ![r] = "Begin"]
  /\ Step
  /\ UNCHANGED <<viol, cfg, algVars, nnot, post, clk, dlx, path, ptime, bad, inner, orc>>

(* Solver._compute_step entry.                                              *)
TrialQ(r) == <<cfg[r].algKey, "query", Len(hist[r])>>
TrialBegin(r, e) ==
  /\ Cl("M", "TrialBegin.pc", pc[r] = "Begin")
  \* twins ask the same k-th question (point, step size, penalty); recorded traces only: in the model the twin's questions are
  \* functions of the shared answers by construction
  /\ Cl(TwinTag(r), "twin.query", Mode = "mc" \/ cfg[r].twin = "none" \/ MemoOK(TrialQ(r), <<e.from, e.lambUsed, e.rhoUsed>>))
  /\ Cl("M", "rho.used.is.solver.rho", e.rhoUsed = rho[r])
  /\ Cl("M", "display.arg", e.disp = disp[r])
  /\ PS(<<
        <<"P:C12", "trial.from", e.from = cur[r]>>,
        <<"P:C15", "lamb.carried", e.dt = Recip(r, lamb[r])>>,
        <<"P:C15", "no.trial.at.lambmax", Lt(lamb[r], cfg[r].lambMax)>>,
        <<"P:C16", "rho.positive", Lt(cfg[r].zero, e.rhoUsed)>>,
        <<"P:C16", "rho.nondecreasing", hist[r] # <<>> => Le(Last(hist[r]).rhoUsed, e.rhoUsed)>>,
        <<"P:C16", "constant.unchanged", cfg[r].pen = "Constant" => e.rhoUsed = cfg[r].rho0>>,
        <<"P:C16", "dualnorm.bound", cfg[r].pen = "DualNorm" => Le(e.rhoUsed, MaxR(cfg[r].rho0, ymax[r]))>>,
        <<"P:C16", "dualnorm.used.x10", (cfg[r].pen = "DualNorm" /\ hist[r] # <<>>) =>
                                           Le(e.rhoUsed, X10(r, Last(hist[r]).rhoUsed))>>
     >>)
  /\ trial' = [trial EXCEPT ![r] = [NoTrial EXCEPT !.from = e.from, !.rhoUsed = e.rhoUsed,
                                                   !.lambUsed = e.lambUsed, !.dt = e.dt]]
  /\ inner' = [inner EXCEPT ![r] = InnerInit]
  /\ pc' = [pc EXCEPT ![r] = "InTrial"]
  /\ orc' = IF Mode = "mc" \/ cfg[r].twin = "none" THEN orc ELSE Memo(TrialQ(r), <<e.from, e.lambUsed, e.rhoUsed>>)
  /\ Step
  /\ UNCHANGED <<cfg, cur, lamb, rho, prho, filt, iter, nacc, pen, hist, status, err, result, ymax,
                 nnot, post, disp, clk, dlx, path, ptime, bad>>

(* One call of newton_method(...).step(iterate).                            *)
NewtonStep(r, e) ==
  /\ Cl("M", "NewtonStep.pc", pc[r] = "InTrial")
  /\ Cl("M", "newton.k", e.k = inner[r].k)
  /\ PS(<< <<"P:C15", "newton.uses.trial.stepsize", e.trialArgs>> >>)
  /\ Cl("M", "newton.maxk", e.k < (CASE cfg[r].ctl = "Exact" -> 10 [] cfg[r].ctl = "DistRatio" -> 2 [] OTHER -> 1))
  /\ inner' = [inner EXCEPT ![r] = [@ EXCEPT !.k = @ + 1,
                                            !.fault = @ \/ (e.raised \in {"StepSolverError", "EvalError"})]]
  /\ Step
  /\ UNCHANGED <<pc, cfg, algVars, nnot, post, disp, clk, dlx, path, ptime, bad, orc>>

(* A factorisation or a solve of the linear solver.                         *)
Lin(r, e) ==
  /\ Cl("M", "Lin.pc", pc[r] = "InTrial")
  /\ PS(<<
        <<"P:C17", "lin.error.type", e.raised \in {"none", "LinearSolverError"}>>,
        <<"P:C17", "lin.finite", e.raised = "none" => e.finite>>,
        <<"P:C17", "lin.converged", e.raised = "none" => e.resOK>>
     >>)
  /\ inner' = [inner EXCEPT ![r] = [@ EXCEPT !.fault = @ \/ (e.raised # "none" /\ e.phase = "trial"),
                                            !.rcf = @ \/ (e.raised # "none" /\ e.phase = "rcond"),
                                            !.ls = IF Mode = "mc" THEN @ + 1 ELSE @,
                                            !.nf = IF e.op = "factor" /\ e.phase = "trial" THEN @ + 1 ELSE @]]
  /\ Step
  /\ UNCHANGED <<pc, cfg, algVars, nnot, post, disp, clk, dlx, path, ptime, bad, orc>>

LambNextOK(r, t, e) ==
  CASE e.kind = "fail" -> e.lambNext = (IF inner[r].dl /\ "F8" \notin Faithful THEN t.lambUsed ELSE Dbl(r, t.lambUsed))
    [] cfg[r].ctl = "Exact" -> e.lambNext = (IF e.kind = "accept" THEN Half(r, t.lambUsed) ELSE Dbl(r, t.lambUsed))
    [] cfg[r].ctl = "Fixed" -> e.lambNext = cfg[r].lambInit
    [] OTHER -> IF e.kind = "reject" THEN e.lambNext = Inc(r, t.lambUsed)
                ELSE Le(cfg[r].lambMin, e.lambNext)

InnerCountOK(r, e) ==
  e.kind = "fail" \/
  CASE cfg[r].ctl = "Exact" -> inner[r].k \in 1..10
    [] cfg[r].ctl = "DistRatio" -> inner[r].k \in 1..2
    [] OTHER -> inner[r].k = 1

(* When the Newton variants refresh derivative (Hessian evaluation) and factorisation within one trial:  *)
(* Simplified: once per trial; Full: at every Newton step; ActiveSet: derivative once, factorisation at  *)
(* every active-set change; Globalized: at every step (plus the Hessian of the merit-function gradient). *)
RefreshOK(r, e) ==
  Mode = "mc" \/ e.kind = "fail" \/ inner[r].fault \/ inner[r].k = 0 \/
  LET k == inner[r].k  nh == inner[r].nh  nf == inner[r].nf  n == cfg[r].newton IN
  CASE n = "Simplified" -> nh = 1 /\ nf = 1
    [] n = "Full" -> nh = k /\ nf = k
    [] n = "ActiveSet" -> nh = 1 /\ nf >= 1 /\ nf <= k
    [] n = "Globalized" -> nh >= k /\ nh <= 2 * k /\ nf = k
    [] OTHER -> TRUE

(* StepController.compute_step returns.                                     *)
TrialEnd(r, e) ==
  LET t == trial[r]
      q == <<cfg[r].algKey, "trial", Len(hist[r]) + 1, t.from, t.lambUsed, t.rhoUsed>>
      a == [kind |-> e.kind, pt |-> e.pt, lambNext |-> e.lambNext]
      byDeadline == inner[r].dl
  IN
  /\ Cl("M", "TrialEnd.pc", pc[r] = "InTrial")
  /\ Cl("M", "kind.accepted", e.accepted <=> e.kind = "accept")
  /\ Cl("M", "fixed.always.accepts", cfg[r].ctl = "Fixed" => e.kind # "reject")
  /\ Cl("M", "fault.fails", ((inner[r].fault /\ cfg[r].validate) \/ inner[r].dl) => e.kind = "fail")   \* without input validation a non-finite value is not noticed
  /\ Cl("M", "fail.needs.fault", e.kind = "fail" => (inner[r].fault \/ inner[r].dl))
  /\ Cl("M", "lamb.next", LambNextOK(r, t, e))
  /\ Cl("M", "inner.count", InnerCountOK(r, e))
  /\ Cl("M", "newton.refresh", RefreshOK(r, e))
  /\ Cl(TwinTag(r), "twin.trial", ~byDeadline => MemoOK(q, a))
  /\ PS(<<
        <<"P:C15", "fail.keepsPoint", e.kind = "fail" => e.pt = t.from>>,
        <<"P:C15", "nonaccept.shrinks", (e.kind # "accept" /\ ~inner[r].dl) => Lt(t.lambUsed, e.lambNext)>>,
        <<"P:C07", "fault.notaccepted", inner[r].fault => e.kind # "accept">>,
        <<"P:C07", "fault.shrinks", (inner[r].fault /\ e.kind # "accept" /\ ~inner[r].dl) => Lt(t.lambUsed, e.lambNext)>>,
        <<"P:C08", "deadline.notaccepted", inner[r].dl => e.kind # "accept">>,
        <<"P:C07", "accept.neverfailed", e.kind = "accept" => ~(\E b \in bad[r] : b[1] = e.ptx)>>,
        <<"P:C05", "accept.inbox", e.kind = "accept" => e.inbox>>,
        <<"P:C15", "accepted.step.in.box", e.kind = "accept" => e.inbox>>,
        <<"P:C15", "exact.solves", (e.kind = "accept" /\ cfg[r].ctl = "Exact") => e.resClass = "le">>
     >>)
  /\ orc' = IF byDeadline \/ NoMemo(r) THEN orc ELSE Memo(q, a)
  /\ trial' = [trial EXCEPT ![r] = [t EXCEPT !.kind = e.kind, !.pt = e.pt, !.lambNext = e.lambNext,
                                             !.accepted = e.accepted,
                                             !.cause = IF byDeadline THEN "deadline" ELSE "none"]]
  /\ hist' = [hist EXCEPT ![r] = Append(@, [from |-> t.from, lambUsed |-> t.lambUsed, rhoUsed |-> t.rhoUsed,
                                            kind |-> e.kind, pt |-> e.pt, lambNext |-> e.lambNext,
                                            cause |-> IF byDeadline THEN "deadline" ELSE "none"])]
  /\ pc' = [pc EXCEPT ![r] = "Post"]
  /\ post' = [post EXCEPT ![r] = PostInit]
  /\ pen' = [pen EXCEPT ![r] = NoPen]
  /\ Step
  /\ UNCHANGED <<cfg, cur, lamb, rho, prho, filt, iter, nacc, status, err, result, ymax,
                 nnot, disp, clk, dlx, path, ptime, bad, inner>>

(* callbacks(ComputedStep, iterate, next_iterate, accept)                   *)
Notify(r, e) ==
  /\ Cl("M", "Notify.pc", pc[r] = "Post" /\ ~post[r].n /\ ~post[r].w /\ ~post[r].p)
  /\ Cl("M", "notify.after.abort.test", Lt(trial[r].lambNext, cfg[r].lambMax))
  /\ Cl("M", "notify.to", e.to = trial[r].pt)
  /\ Cl("M", "notify.accept", e.accept = trial[r].accepted)
  /\ Cl("M", "notify.rho", e.solverRho = rho[r])
  /\ PS(<<
        <<"P:C15", "abort.at.lambmax", Lt(trial[r].lambNext, cfg[r].lambMax)>>,
        <<"P:C12", "notify.from", e.from = cur[r]>>,
        <<"P:C12", "notify.own.solve.only", pc[r] \notin (Terminal \cup {"Idle"})>>,
        <<"P:C05", "notify.inbox", e.fromInbox /\ e.toInbox>>
     >>)
  /\ post' = [post EXCEPT ![r] = [@ EXCEPT !.n = TRUE]]
  /\ nnot' = [nnot EXCEPT ![r] = @ + 1]
  /\ Step
  /\ UNCHANGED <<pc, cfg, algVars, disp, clk, dlx, path, ptime, bad, inner, orc>>

(* logger.info(display.row(state)): observer only.                          *)
Row(r, e) ==
  /\ Cl("M", "Row.pc", pc[r] = "Post" /\ ~post[r].w /\ ~post[r].p)
  /\ Cl("M", "row.if.display", disp[r])
  /\ Cl("M", "row.after.notify", cfg[r].ncb > 0 => post[r].n)
  /\ post' = [post EXCEPT ![r] = [@ EXCEPT !.w = TRUE]]
  /\ Step
  /\ UNCHANGED <<viol, pc, cfg, algVars, nnot, disp, clk, dlx, path, ptime, bad, inner, orc>>

Dom(f, g) == Le(f[1], g[1]) /\ Le(f[2], g[2])
FilterInsert(F, en) == {f \in F : ~Dom(en, f)} \cup {en}

PolicyM(r, e) ==
  LET p == cfg[r].pen IN
  CASE p = "Constant" -> Cl("M", "constant.result", e.nextRho = cfg[r].rho0 /\ e.ok)
    [] p = "DualNorm" ->
         /\ Cl("M", "dualnorm.rule",
               IF ~cfg[r].m0 /\ Le(X10(r, e.prhoBefore), e.ynorm)
               THEN e.prhoAfter = MinR(e.ynorm, X10(r, e.prhoBefore))
               ELSE e.prhoAfter = e.prhoBefore)
         /\ Cl("M", "dualnorm.result", e.nextRho = e.prhoAfter /\ e.ok)
    [] p \in {"ObjFilter", "LagFilter"} ->
         /\ Cl("M", "filter.before", ToSet(e.filtBefore) = filt[r])
         /\ Cl("M", "filter.result", e.nextRho = e.prhoAfter)
    [] OTHER -> Cl("M", "policy.result", e.nextRho = e.prhoAfter /\ e.ok)

PolicyP(r, e) ==
  LET p == cfg[r].pen
      F == filt[r]
      en == <<e.entry[1], e.entry[2]>>
  IN
  CASE p = "DualNorm" -> << <<"P:C16", "dualnorm.factor10", Le(e.prhoAfter, X10(r, e.prhoBefore))>> >>
    [] p \in {"ObjFilter", "LagFilter"} -> <<
         <<"P:C18", "filter.refuse.iff", e.ok <=> ~(\E f \in F : Dom(f, en))>>,
         <<"P:C18", "filter.accept.removes", e.ok => ToSet(e.filtAfter) = FilterInsert(F, en)>>,
         <<"P:C18", "filter.refuse.keeps", ~e.ok => ToSet(e.filtAfter) = F>>,
         <<"P:C18", "filter.veto.x10", ~e.ok => e.prhoAfter = X10(r, e.prhoBefore)>>,
         <<"P:C18", "filter.accept.rho", e.ok => e.prhoAfter = e.prhoBefore>>,
         <<"P:C18", "filter.antichain", \A f, g \in ToSet(e.filtAfter) : f # g => ~Dom(f, g)>> >>
    [] OTHER -> <<>>

(* penalty_strategy.update(iterate, next_iterate)                           *)
PenaltyUpdate(r, e) ==
  /\ Cl("M", "PenaltyUpdate.pc", pc[r] = "Post" /\ ~post[r].p)
  /\ Cl("M", "penalty.only.accepted", trial[r].accepted)
  /\ Cl("M", "penalty.after.notify", cfg[r].ncb > 0 => post[r].n)
  /\ Cl("M", "penalty.after.row", disp[r] => post[r].w)
  /\ Cl("M", "penalty.prho", cfg[r].pen # "Constant" => e.prhoBefore = prho[r])
  /\ PolicyM(r, e)
  /\ PS(<< <<"P:C16", "policy.monotone", Le(e.prhoBefore, e.prhoAfter)>> >> \o PolicyP(r, e))
  /\ pen' = [pen EXCEPT ![r] = [nextRho |-> e.nextRho, ok |-> e.ok, ynorm |-> e.ynorm, entry |-> <<e.entry[1], e.entry[2]>>]]
  /\ prho' = [prho EXCEPT ![r] = e.prhoAfter]
  /\ filt' = [filt EXCEPT ![r] = IF cfg[r].pen \in {"ObjFilter", "LagFilter"} THEN ToSet(e.filtAfter) ELSE @]
  /\ post' = [post EXCEPT ![r] = [@ EXCEPT !.p = TRUE]]
  /\ Step
  /\ UNCHANGED <<pc, cfg, cur, lamb, rho, iter, nacc, trial, hist, status, err, result, ymax,
                 nnot, disp, clk, dlx, path, ptime, bad, inner, orc>>

(* The end of the loop body.  Never logged: the spec decides what the       *)
(* counters, the current point, rho, the path must be (C12, C16).           *)
Commit(r) ==
  LET t == trial[r]
      go == t.accepted /\ post[r].p /\ pen[r].ok
  IN
  /\ pc[r] = "Post"
  /\ Cl("M", "commit.after.abort.test", Lt(t.lambNext, cfg[r].lambMax))
  /\ Cl("M", "commit.after.notify", cfg[r].ncb > 0 => post[r].n)
  /\ Cl("M", "commit.rowed", disp[r] => post[r].w)
  /\ Cl("M", "commit.penalized", t.accepted <=> post[r].p)
  /\ PS(<<
        <<"P:C15", "abort.at.lambmax.commit", Lt(t.lambNext, cfg[r].lambMax)>>,
        <<"P:C12", "commit.notified", cfg[r].ncb > 0 => post[r].n>>,
        <<"P:C16", "commit.rho.monotone", go => Le(rho[r], pen[r].nextRho)>>,
        <<"P:C16", "commit.dualnorm.x10", (go /\ cfg[r].pen = "DualNorm") => Le(pen[r].nextRho, X10(r, rho[r]))>>
     >>)
  /\ cur' = [cur EXCEPT ![r] = IF go THEN t.pt ELSE @]
  /\ rho' = [rho EXCEPT ![r] = IF go THEN pen[r].nextRho ELSE @]
  /\ nacc' = [nacc EXCEPT ![r] = IF go THEN @ + 1 ELSE @]
  /\ ymax' = [ymax EXCEPT ![r] = IF go THEN MaxR(@, pen[r].ynorm) ELSE @]
  /\ path' = [path EXCEPT ![r] = IF go /\ cfg[r].collectPath THEN Append(@, t.pt) ELSE @]
  /\ ptime' = [ptime EXCEPT ![r] = IF go /\ cfg[r].collectPath THEN Append(@, t.dt) ELSE @]
  /\ lamb' = [lamb EXCEPT ![r] = t.lambNext]
  /\ iter' = [iter EXCEPT ![r] = @ + 1]
  /\ pc' = [pc EXCEPT ![r] = "Top"]
  /\ UNCHANGED <<pos, cfg, prho, filt, trial, pen, hist, status, err, result,
                 nnot, post, disp, clk, dlx, bad, inner, orc>>

(* solve() returns a SolverResult.                                          *)
Return(r, e) ==
  LET q == <<cfg[r].algKey, "ret", cfg[r].limit, cfg[r].deadline>>
      a == [status |-> e.status, x |-> e.x, y |-> e.y, d |-> e.d,
            iterations |-> e.iterations, accepted |-> e.accepted]
  IN
  /\ Cl("M", "Return.pc", pc[r] = "Fin")
  /\ Cl("M", "return.status", e.status = status[r])
  /\ Cl("M", "path.absent", ~cfg[r].collectPath => e.path = <<>>)
  /\ Cl(TwinTag(r), "twin.result", MemoOK(q, a))
  /\ Cl(TwinTag(r), "twin.end.kind", <<cfg[r].algKey, "raise", cfg[r].limit, cfg[r].deadline>> \notin DOMAIN orc)
  /\ PS(<<
        <<"P:C06", "return.status.known", e.status \in Statuses>>,
        <<"P:C12", "return.iterations", e.iterations = iter[r]>>,
        <<"P:C12", "iterations.announced", cfg[r].ncb > 0 => e.iterations = nnot[r]>>,
        <<"P:C12", "return.accepted", e.accepted = nacc[r]>>,
        <<"P:C12", "return.x.is.cur", cur[r] \in ToSet(e.xFrom)>>,
        <<"P:C02", "iterbound", cfg[r].limit # NoLimit => e.iterations <= cfg[r].limit>>,
        <<"P:C06", "return.finite", e.finite>>,
        <<"P:C05", "return.inbox", e.xInbox>>,
        <<"P:C12", "dist.factor", e.distGe1>>,
        <<"P:C12", "path.columns", cfg[r].collectPath => e.path = path[r]>>,
        <<"P:C12", "path.t0", cfg[r].collectPath => e.mtime0>>,
        <<"P:C12", "path.times", cfg[r].collectPath =>
           (Len(e.mtimeSteps) = Len(ptime[r]) /\
            \A k \in 1..MinR(Len(ptime[r]), Len(e.mtimeSteps)) : ptime[r][k] \in ToSet(e.mtimeSteps[k]))>>,
        <<"P:C11", "return.callerdata", e.changed = <<>>>>,
        <<"P:C01", "return.kkt", e.status = "Optimal" => UserKKT(e.kkt)>>,
        <<"P:C02", "return.infeasible.justified", e.status = "LocallyInfeasible" => (e.just.violGt /\ e.just.infStat)>>,
        <<"P:C02", "return.unbounded.justified", e.status = "Unbounded" => (e.just.feas /\ e.just.objLe)>>,
        <<"P:C03", "wellposed.solved", cfg[r].wellposed => e.status = "Optimal">>,
        <<"P:C08", "deadline.returns.limit", dlx[r] => e.status \in {"TimeLimit", "IterationLimit"}>>
     >>)
  /\ orc' = IF NoMemo(r) THEN orc ELSE Memo(q, a)
  /\ result' = [result EXCEPT ![r] = [status |-> e.status,
                                      x |-> IF cur[r] \in ToSet(e.xFrom) THEN cur[r] ELSE -2,
                                      iterations |-> e.iterations,
                                      accepted |-> e.accepted]]
  /\ pc' = [pc EXCEPT ![r] = "Done"]
  /\ Step
  /\ UNCHANGED <<cfg, cur, lamb, rho, prho, filt, iter, nacc, trial, pen, hist, status, err, ymax,
                 nnot, post, disp, clk, dlx, path, ptime, bad, inner>>

(* solve() raises.                                                          *)
Raise(r, e) ==
  LET t == trial[r]
      q == <<cfg[r].algKey, "raise", cfg[r].limit, cfg[r].deadline>>
      qa == <<cfg[r].algKey, "trial", Len(hist[r]), t.from, t.lambUsed, t.rhoUsed>>
      twinAlsoAborts == qa \in DOMAIN orc /\ Le(cfg[r].lambMax, orc[qa].lambNext)
  IN
  /\ Cl("M", "Raise.pc", pc[r] \notin (Terminal \cup {"Idle"}))
  /\ Cl(TwinTag(r), "twin.raise", MemoOK(q, e.kind))
  /\ Cl(TwinTag(r), "twin.end.kind", <<cfg[r].algKey, "ret", cfg[r].limit, cfg[r].deadline>> \notin DOMAIN orc)
  /\ PS(<<
        <<"P:C06", "raise.deliberate", e.kind \in DeliberateErrs>>,
        <<"P:C06", "raise.initeval.legit", e.kind = "InitEval" => (pc[r] = "Init" /\ inner[r].fault)>>,
        <<"P:C06", "raise.lambmax.legit", e.kind = "LambMax" => (pc[r] = "Post" /\ Le(cfg[r].lambMax, t.lambNext))>>,
        <<"P:C06", "raise.linesearch.legit", e.kind = "LineSearch" => (pc[r] = "InTrial" /\ cfg[r].newton = "Globalized")>>,
        <<"P:C06", "raise.derivcheck.legit", e.kind = "DerivCheck" => (pc[r] = "Init" /\ cfg[r].derivCheck)>>,
        <<"P:C07", "init.fault.dedicated", (pc[r] = "Init" /\ inner[r].fault) => e.kind = "InitEval">>,
        <<"P:C07", "tainted.ends.deliberately", (pc[r] # "Init" /\ bad[r] # {}) => e.kind \in DeliberateErrs>>,
        <<"P:C07", "trial.fault.survived", (pc[r] \in {"InTrial", "Post"} /\ inner[r].fault) => e.kind = "LambMax">>,
        <<"P:C07", "rcond.fault.survived", (pc[r] \in {"InTrial", "Post"} /\ inner[r].rcf) => e.kind \in DeliberateErrs>>,
        <<"P:C03", "wellposed.no.raise", ~cfg[r].wellposed>>,
        <<"P:C08", "deadline.never.raises", (dlx[r] /\ cfg[r].twin = "C08") => twinAlsoAborts>>,
        <<"P:C09", "observer.never.raises", e.kind \notin DeliberateErrs => (~(cfg[r].debug \/ disp[r]) \/ q \in DOMAIN orc)>>,
        <<"P:C11", "raise.callerdata", e.changed = <<>>>>
     >>)
  /\ orc' = IF NoMemo(r) THEN orc ELSE Memo(q, e.kind)
  /\ err' = [err EXCEPT ![r] = e.kind]
  /\ pc' = [pc EXCEPT ![r] = "Raised"]
  /\ Step
  /\ UNCHANGED <<cfg, cur, lamb, rho, prho, filt, iter, nacc, trial, pen, hist, status, result, ymax,
                 nnot, post, disp, clk, dlx, path, ptime, bad, inner>>

-----------------------------------------------------------------------------
Started(r) == rho[r] # NoRho

(* State invariants (checked by TLC on the model and on every state of      *)
(* every validated trace).                                                  *)

C02_IterBound == \A r \in Runs : (pc[r] # "Idle" /\ cfg[r].limit # NoLimit) => iter[r] <= cfg[r].limit
C02_IterLimitIff == \A r \in Runs : pc[r] \in {"Fin", "Done"} =>
     ((status[r] = "IterationLimit") <=> (cfg[r].limit # NoLimit /\ iter[r] = cfg[r].limit))
C02_TimeLimitAfterDeadline == \A r \in Runs : status[r] = "TimeLimit" => dlx[r]
C06_TerminalKinds == \A r \in Runs :
     /\ pc[r] = "Done" => result[r].status \in Statuses
     /\ pc[r] = "Raised" => err[r] \in DeliberateErrs
C07_FailedPointNeverCurrent == \A r \in Runs : TRUE   \* refined per event: accept.neverfailed
C12_CountersConsistent == \A r \in Runs : Started(r) =>
     /\ nacc[r] <= iter[r]
     /\ iter[r] <= Len(hist[r]) /\ Len(hist[r]) <= iter[r] + 1
     /\ cfg[r].collectPath => (Len(path[r]) = nacc[r] + 1 /\ Len(ptime[r]) = nacc[r])
     /\ pc[r] = "Done" => (result[r].iterations = iter[r] /\ result[r].accepted = nacc[r])
C12_CurIsLastCommitted == \A r \in Runs : (Started(r) /\ cfg[r].collectPath) => Last(path[r]) = cur[r]
C15_NoTrialAtLambMax == \A r \in Runs : pc[r] = "InTrial" => Lt(lamb[r], cfg[r].lambMax)
C15_RejectKeepsPoint == \A r \in Runs : \A k \in 1..Len(hist[r]) :
     (hist[r][k].kind = "fail" => hist[r][k].pt = hist[r][k].from)
     /\ ((hist[r][k].kind # "accept" /\ hist[r][k].cause # "deadline") => Lt(hist[r][k].lambUsed, hist[r][k].lambNext))
C15_Chain == \A r \in Runs : \A k \in 1..(Len(hist[r]) - 1) :
     /\ hist[r][k+1].from \in {hist[r][k].from, hist[r][k].pt}
     /\ hist[r][k].kind # "accept" => hist[r][k+1].from = hist[r][k].from
     /\ hist[r][k+1].lambUsed = hist[r][k+1].lambUsed
C16_RhoPositive == \A r \in Runs : Started(r) => Lt(cfg[r].zero, rho[r])
C16_RhoMonotoneHist == \A r \in Runs : \A k \in 1..(Len(hist[r]) - 1) : Le(hist[r][k].rhoUsed, hist[r][k+1].rhoUsed)
C16_ConstantUnchanged == \A r \in Runs : (Started(r) /\ cfg[r].pen = "Constant") => rho[r] = cfg[r].rho0
C18_Antichain == \A r \in Runs : \A f, g \in filt[r] : f # g => ~Dom(f, g)

(* 2-safety, by self-composition with the shared memo.                      *)
Completed(h) == IF h # <<>> /\ Last(h).cause = "deadline" THEN Front(h) ELSE h
StripCause(h) == [k \in 1..Len(h) |-> [h[k] EXCEPT !.cause = "none"]]
PrefixRelated(h, g) == IsPrefix(StripCause(h), StripCause(g)) \/ IsPrefix(StripCause(g), StripCause(h))
TwinPairs == {<<a, b>> \in Runs \X Runs : a # b /\ pc[a] # "Idle" /\ pc[b] # "Idle"
                                          /\ cfg[a].algKey = cfg[b].algKey}
Twin_Prefix == \A p \in TwinPairs : PrefixRelated(Completed(hist[p[1]]), Completed(hist[p[2]]))
Twin_SameEnd == \A p \in TwinPairs :
     (pc[p[1]] \in Terminal /\ pc[p[2]] \in Terminal
      /\ cfg[p[1]].limit = cfg[p[2]].limit /\ cfg[p[1]].deadline = cfg[p[2]].deadline)
     => (pc[p[1]] = pc[p[2]] /\ result[p[1]] = result[p[2]] /\ err[p[1]] = err[p[2]]
         /\ StripCause(hist[p[1]]) = StripCause(hist[p[2]]))
C08_NoLeak == \A r \in Runs : pc[r] = "Done" =>
     (result[r].x = cfg[r].start \/ \E k \in 1..Len(hist[r]) : hist[r][k].kind = "accept" /\ hist[r][k].pt = result[r].x)
C08_StopsAsLimit == \A r \in Runs : (pc[r] = "Raised" /\ dlx[r]) =>
     \E p \in TwinPairs : p[1] = r /\ pc[p[2]] = "Raised"

(* Observer steps stutter on the algorithmic view (C09, single run).        *)
ObserverPcs == {"Disp"}
C09_ObserverStutter == [][\A r \in Runs : (pc[r] = "Disp" /\ pc'[r] = "Begin") => UNCHANGED algVars]_vars
=============================================================================
