SPECIFICATION MCSpec
CONSTANTS
  Runs = {"A", "B"}
  Mode = "mc"
  Faithful = {"F8"}
  Tabs <- MCTabs
  MaxVal = 3
  MaxRho = 3
  MaxIter = 2
  MaxK = 2
  MaxF = 1
  CfgSpace <- QTwinStopCfgs
  SimBias = FALSE
CONSTRAINT Bound
CHECK_DEADLOCK FALSE
INVARIANT TypeOK
INVARIANT NoViolation
INVARIANT C02_IterBound
INVARIANT C02_IterLimitIff
INVARIANT C02_TimeLimitAfterDeadline
INVARIANT C06_TerminalKinds
INVARIANT C12_CountersConsistent
INVARIANT C12_CurIsLastCommitted
INVARIANT C15_NoTrialAtLambMax
INVARIANT C15_RejectKeepsPoint
INVARIANT C15_Chain
INVARIANT C16_RhoPositive
INVARIANT C16_RhoMonotoneHist
INVARIANT C16_ConstantUnchanged
INVARIANT C18_Antichain
INVARIANT C08_NoLeak
INVARIANT Twin_Prefix
INVARIANT Twin_SameEnd
INVARIANT C08_StopsAsLimit
