"""Projector: a finished Recorder group -> TLC-facing events (ranks, ids, classes)."""
import json
import math

import numpy as np

from harness import oracle
from harness.record import F, zkey

NAN_RANK = -9


def _walk(o, fn):
    if isinstance(o, F):
        return fn(o)
    if isinstance(o, dict):
        return {k: _walk(v, fn) for k, v in o.items() if not k.startswith("_")}
    if isinstance(o, (list, tuple)):
        return [_walk(v, fn) for v in o]
    if isinstance(o, (np.bool_,)):
        return bool(o)
    if isinstance(o, (np.integer,)):
        return int(o)
    return o


def complete_returns(rec):
    """Fill the oracle-computed fields of every Return event."""
    for e in rec.events:
        if e["ev"] != "Return":
            continue
        meta = rec.meta[e["run"]]
        prob, scal, par = meta["problem"], meta["scaling"], meta["params"]
        x, y, d = e["_x"], e["_y"], e["_d"]
        lb, ub = np.asarray(prob.var_lb), np.asarray(prob.var_ub)
        e["xInbox"] = bool((x >= lb).all() and (x <= ub).all())
        xfrom = []
        for i, pl in enumerate(rec.pts.arrays):
            xi, yi = pl
            if xi.size != lb.size + len(oracle.slack_rows(prob)) or yi.size != int(prob.num_cons):
                continue      # an iterate of another problem of the same group
            rx, ry = oracle.restore(prob, scal, xi, yi)
            if rx.shape == x.shape and ry.shape == y.shape and rx.tobytes() == np.asarray(x, dtype=rx.dtype).tobytes() \
                    and ry.tobytes() == np.asarray(y, dtype=ry.dtype).tobytes():
                xfrom.append(i)
        e["xFrom"] = xfrom
        nacc = e["accepted"]
        df = e["distFactor"]
        e["distGe1"] = bool(df >= 1.0 - 4.0 * max(nacc, 1) * 2.0 ** -52) if math.isfinite(df) else False
        path, mt = e["_path"], e["_mtimes"]
        if path is None:
            e["path"] = []
            e["mtime0"] = True
            e["mtimeSteps"] = []
            e["_mt"] = None
        else:
            cols = []
            for k in range(path.shape[1]):
                col = np.ascontiguousarray(path[:, k])
                cols.append(rec.pts.intern(col.tobytes(), None))
            e["path"] = cols
            e["mtime0"] = bool(mt[0] == 0.0)
            e["_mt"] = [float(v) for v in mt]
        if e["status"] == "Optimal" and not getattr(rec, "scripted", False):
            e["kkt"] = oracle.kkt_classes(prob, scal, par, x, y, d)
        else:
            e["kkt"] = {"boundsExact": True, "rows": [], "vars": []}
        just = {"violGt": True, "infStat": True, "feas": True, "objLe": True}
        if e["status"] in ("LocallyInfeasible", "Unbounded") and not getattr(rec, "scripted", False):
            if xfrom:
                xi, yi = rec.pts.arrays[xfrom[0]]
            else:
                # no recorded internal iterate restores to the returned point (e.g. the solver's internal problem has another
                # shape than the reformulation of the statement): judge the returned point itself, slacks placed by the oracle
                xi, yi = oracle.transform_start(prob, scal, par, np.asarray(x, dtype=float), np.asarray(y, dtype=float))
            just = oracle.justify(prob, scal, par, xi, yi)
        e["just"] = just


def project(rec):
    """Returns the list of projected events of the group (first a Reset)."""
    complete_returns(rec)
    events = rec.events
    # ---- clocks: deadline and expiry per run
    tinit = {}
    tlimit = {}
    for e in events:
        if e["ev"] == "NewSolve":
            tlimit[e["run"]] = e["timeLimit"]
            tinit.pop(e["run"], None)
        elif e["ev"] == "Clock" and e["site"] == "timer.init":
            tinit[e["run"]] = e["t"].v
    cur_init = {}
    for e in events:
        if e["ev"] == "NewSolve":
            r = e["run"]
            tl = tlimit[r]
            e["deadline"] = F("TIME", tinit[r] + tl) if (math.isfinite(tl) and r in tinit) else -1
            cur_init.pop(r, None)
        elif e["ev"] == "Clock":
            r = e["run"]
            if e["site"] == "timer.init":
                cur_init[r] = e["t"].v
            if r in cur_init and math.isfinite(tlimit[r]):
                e["expired"] = bool(tlimit[r] - (e["t"].v - cur_init[r]) <= 0.0)
    # ---- collect values per sort
    vals = {}

    def collect(f):
        vals.setdefault(f.sort, set())
        if not math.isnan(f.v):
            vals[f.sort].add(f.v)
        return f

    _walk(events, collect)
    for s in ("LAMB", "DT", "RHO", "TIME", "FA", "FB"):
        vals.setdefault(s, set())
    lamb_logged = sorted(vals["LAMB"])
    rho_logged = sorted(vals["RHO"])
    incs = set()
    reds = set()
    for e in events:
        if e["ev"] == "NewSolve":
            incs.add(e["lambInc"])
            reds.add(e["lambRed"])
    for v in lamb_logged:
        vals["LAMB"].update([2.0 * v, 0.5 * v])
        for c in incs:
            vals["LAMB"].add(v * c)
        for c in reds:
            vals["LAMB"].add(v * c)
        if v != 0.0:
            vals["DT"].add(1.0 / v)
    for v in rho_logged:
        vals["RHO"].add(10.0 * v)
    order = {s: sorted(vs) for s, vs in vals.items()}
    rank = {s: {v: i for i, v in enumerate(vs)} for s, vs in order.items()}

    def rk(sort, v):
        if isinstance(v, float) and math.isnan(v):
            return NAN_RANK
        return rank[sort].get(v, -1)

    # ---- model times (needs DT values)
    for e in events:
        if e["ev"] == "Return" and e.get("_mt") is not None:
            mt = e["_mt"]
            steps = []
            for k in range(len(mt) - 1):
                steps.append([rank["DT"][dv] for dv in order["DT"] if mt[k] + dv == mt[k + 1]])
            e["mtimeSteps"] = steps
    # ---- tables per NewSolve
    out = [{"ev": "Reset", "run": "A"}]
    for e in events:
        pe = _walk(e, lambda f: rk(f.sort, f.v))
        if e["ev"] == "NewSolve":
            L = order["LAMB"]
            inc, red = e["lambInc"], e["lambRed"]
            pe["tabs"] = {
                "dbl": [rk("LAMB", 2.0 * v) for v in L],
                "half": [rk("LAMB", 0.5 * v) for v in L],
                "inc": [rk("LAMB", v * inc) for v in L],
                "red": [rk("LAMB", v * red) for v in L],
                "recip": [rk("DT", 1.0 / v) if v != 0.0 else -1 for v in L],
                "x10": [rk("RHO", 10.0 * v) for v in order["RHO"]],
            }
        out.append(pe)
    return out


def write_batch(groups, path):
    """groups: list of projected event lists.  Writes ndjson; fills `line` of NewSolve events and a
    `tid` on every event.  Returns list of (tid, first_line, last_line)."""
    spans = []
    n = 0
    with open(path, "w") as f:
        for tid, evs in enumerate(groups):
            first = n + 1
            for e in evs:
                n += 1
                e = dict(e)
                e["tid"] = tid
                if e["ev"] == "NewSolve":
                    e["line"] = n
                f.write(json.dumps(e) + "\n")
            spans.append((tid, first, n))
    return spans
