"""Recorder for IntegrationSolver.solve (the flow-integration solver): events for spec/IntegrationTrace.tla.

No hook in the repository: a subclass overrides perform_integration / handle_events, and the loop-top residuum test is
observed by wrapping RestrictedFlow.residuum for calls whose caller is IntegrationSolver.solve (the frame's locals give the
point and the free set the loop works with at that moment).
"""
import sys

import numpy as np

from harness import oracle
from pygradflow.integration.integration_solver import IntegrationSolver
from pygradflow.integration.restricted_flow import RestrictedFlow


def _free(filt):
    return [int(j) + 1 for j in np.nonzero(np.asarray(filt))[0]]


def _dense(a):
    return np.asarray(a.toarray() if hasattr(a, "toarray") else a, dtype=float)


def oracle_filter_ok(problem, z, filt, rho):
    """Independent check of the free set at a point: a pinned variable sits at a bound and the flow does not point strictly
    inward there; a free variable at a one-sided bound is not pushed strictly outward.  Signs within a relative 1e-7 of zero
    decide nothing (second-order information is the code's business)."""
    n = problem.num_vars
    x, y = z[:n], z[n:]
    c = np.asarray(problem.cons(x), dtype=float) if problem.num_cons else np.zeros(0)
    g = np.asarray(problem.obj_grad(x), dtype=float)
    if problem.num_cons:
        g = g + _dense(problem.cons_jac(x)).T @ (rho * c + y)
    dx = -g
    tol = 1e-7 * (1.0 + np.abs(g).max() if n else 1.0)
    lb, ub = problem.var_lb, problem.var_ub
    at_lb = np.isclose(x, lb, rtol=1e-12, atol=1e-12)
    at_ub = np.isclose(x, ub, rtol=1e-12, atol=1e-12)
    for j in range(n):
        if filt[j]:
            if at_lb[j] and not at_ub[j] and dx[j] < -tol:
                return False
            if at_ub[j] and not at_lb[j] and dx[j] > tol:
                return False
        else:
            if not (at_lb[j] or at_ub[j]):
                return False
            if at_lb[j] and not at_ub[j] and dx[j] > tol:
                return False
            if at_ub[j] and not at_lb[j] and dx[j] < -tol:
                return False
    return True


class TracedIntegrationSolver(IntegrationSolver):
    def __init__(self, problem, params):
        super().__init__(problem, params)
        self.raw = []
        self._events = None

    def handle_events(self, events, restricted_flow, rho):
        res = super().handle_events(events, restricted_flow, rho)
        kinds = []
        params = self.params
        n = self.problem.num_vars
        for e in events:
            k = e.type.name
            if k == "UNBOUNDED":
                # independent feasibility of the event point
                x = np.asarray(e.state[:n], dtype=float)
                c = np.asarray(self.problem.cons(x), dtype=float) if self.problem.num_cons else np.zeros(0)
                viol = max([0.0] + list(np.abs(c)) + list(np.maximum(self.problem.var_lb - x, 0.0)) + list(np.maximum(x - self.problem.var_ub, 0.0)))
                k = "UNB_FEAS" if viol <= params.opt_tol else "UNB_INFEAS"
            kinds.append((k, (int(e.index) + 1) if k in ("LB", "UB", "GRAD_FIXED") else 0, e))
        first = 0
        for pos, (k, _, _) in enumerate(kinds):
            if k != "UNB_INFEAS":
                first = pos + 1
                break
        decided = 0
        if res is not None:
            for pos, (_, _, e) in enumerate(kinds):
                if e.state is res.z and e.time == res.t:
                    decided = pos + 1
                    break
        trig, j = "none", 0
        if decided and kinds[decided - 1][0] in ("LB", "UB", "GRAD_FIXED"):
            trig, j = kinds[decided - 1][0], kinds[decided - 1][1]
        self._events = {"kinds": [k for k, _, _ in kinds], "firstDeciding": first, "decided": decided, "trig": trig, "j": j}
        return res

    def perform_integration(self, curr_t, curr_z, curr_filter, rho):
        self._events = None
        before = np.array(curr_filter, copy=True)
        z0 = np.array(curr_z, copy=True)
        res = super().perform_integration(curr_t, curr_z, curr_filter, rho)
        n = self.problem.num_vars
        x1 = np.asarray(res.z[:n])
        ev = self._events or {"kinds": [], "firstDeciding": 0, "decided": 0, "trig": "none", "j": 0}
        self._last_z = np.array(res.z, copy=True)
        self.raw.append(("int", {
            "result": res.status.name(), "freeBefore": _free(before), "freeAfter": _free(res.filter),
            "trig": ev["trig"], "j": ev["j"], "decided": ev["decided"], "firstDeciding": ev["firstDeciding"], "kinds": ev["kinds"],
            "tFwd": bool(res.t >= curr_t), "rho": float(rho),
            "pinnedKept": bool((x1[~before] == z0[:n][~before]).all()),
            "inBox": bool((self.problem.var_lb <= x1).all() and (x1 <= self.problem.var_ub).all()),
            "callerFilterUntouched": bool((np.asarray(curr_filter) == before).all())}))
        return res

    def solve(self, x0=None, y0=None):
        orig = RestrictedFlow.residuum
        solver = self

        def residuum(rf, z):
            v = orig(rf, z)
            fr = sys._getframe(1)
            caller = fr.f_code
            if caller.co_name == "solve" and caller.co_filename.endswith("integration_solver.py"):
                # the residuum test at the loop top (other calls come from the event triggers of the integrator)
                filt = np.array(fr.f_locals.get("curr_filter", rf.filter), copy=True)
                zz = np.array(z, copy=True)
                n = solver.problem.num_vars
                solver.raw.append(("res", {
                    "resLe": bool(v <= solver.params.opt_tol), "free": _free(filt), "rho": float(solver.rho),
                    "filterOK": bool(oracle_filter_ok(solver.problem, zz, filt, solver.rho)),
                    "inBox": bool((solver.problem.var_lb <= zz[:n]).all() and (zz[:n] <= solver.problem.var_ub).all())}))
            return v

        RestrictedFlow.residuum = residuum
        try:
            return super().solve(x0, y0)
        finally:
            RestrictedFlow.residuum = orig


def events_of(solver, result, problem, params):
    """Turns the raw log + result into the event list of one run (first a Reset)."""
    evs = [{"ev": "Reset"}]
    raw = solver.raw
    status = result.status.name
    for k, (kind, val) in enumerate(raw):
        last = k == len(raw) - 1
        if kind == "res":
            evs.append({"ev": "Top", "resLe": val["resLe"], "expired": False, "status": status if last else "none",
                        "free": val["free"], "filterOK": val["filterOK"], "inBox": val["inBox"]})
        else:
            # the penalty the loop continues with: at the next loop top, or the solver's final value
            nxt = raw[k + 1][1]["rho"] if not last else float(solver.rho)
            mul = "same" if nxt == val["rho"] else ("x10" if nxt == 10 * val["rho"] else "other")
            evs.append({"ev": "Integrate", "result": val["result"], "limitHit": bool(last and status == "IterationLimit"),
                        "trig": val["trig"], "j": val["j"], "freeAfter": val["freeAfter"], "rhoMul": mul,
                        "decided": val["decided"], "firstDeciding": val["firstDeciding"], "kinds": val["kinds"],
                        "tFwd": val["tFwd"], "pinnedKept": val["pinnedKept"], "inBox": val["inBox"]})
    kkt = {"boundsExact": True, "rows": [], "vars": []}
    if status == "Optimal":
        kkt = oracle.kkt_classes(problem, None, params, result.x, result.y, result.d, rel_slack=1e-6)
    fin = bool(np.isfinite(result.x).all() and np.isfinite(result.y).all() and np.isfinite(result.d).all())
    # recorded path (internal coordinates): one block of columns per integration, times never run backwards, the path ends
    # at the point the loop ended with
    path = {"has": False, "timesMonotone": True, "shapeOK": True, "endsAtLast": True, "startsAtZero": True}
    if params.collect_path:
        try:
            P, T = np.asarray(result.path), np.asarray(result.model_times)
            path["has"] = True
            path["shapeOK"] = bool(P.ndim == 2 and T.ndim == 1 and P.shape[1] == T.shape[0] and P.shape[1] >= 1)
            if path["shapeOK"]:
                path["timesMonotone"] = bool((np.diff(T) >= 0).all())
                path["startsAtZero"] = bool(T[0] == 0.0)
                last = getattr(solver, "_last_z", None)
                if last is not None:
                    path["endsAtLast"] = bool((P[:, -1] == last).all())
        except Exception:
            path["shapeOK"] = False
    evs.append({"ev": "Return", "status": status, "iterations": int(result.iterations),
                "limit": -1 if params.iteration_limit is None else int(params.iteration_limit), "kkt": kkt, "finite": fin,
                "path": path, "collectPath": bool(params.collect_path), "accepted": int(result.num_accepted_steps)})
    return evs
