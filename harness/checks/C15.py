"""C15 step-size control: rejected steps shrink the step and keep the point."""
import numpy as np

from harness.checklib import Check
from harness.checks.common import family_spec
from harness import gen


def groups(n, seed):
    rng = np.random.default_rng(seed)
    gs = []
    for i in range(n):
        pk = gen.random_params(rng, iteration_limit=40, step_control_type=gen.CTLS[i % 4],
                               newton_type=gen.NEWTONS[(i // 4) % 4])
        rs = {"prob": family_spec(i, rng), "params": pk}
        mode = i % 5
        if mode == 1:
            pk["lamb_max"] = float(2.0 ** rng.integers(2, 8))      # the abort is within reach
        elif mode == 2:
            rs["fault"] = ("transient", None, int(rng.integers(8, 80)), "nan")
        elif mode == 3:
            rs["lin_fault"] = ("lin", None, int(rng.integers(0, 30)))
        elif mode == 4:
            rs["fault"] = ("region", 0, float(rng.uniform(-0.5, 1.0)), ["obj", "cons", "obj_grad"][i % 3], "nan")
            pk["lamb_max"] = 1e4
        gs.append({"tag": "C15", "runs": [rs]})
    return gs


def main():
    chk = Check("C15")
    chk.mc("GF_small.cfg" if chk.thorough else "GF_q_small.cfg")
    chk.tv(groups(1200 if chk.thorough else 100, chk.seed), "C15 sweep")
    chk.assumptions += ["exact.solves compares an independently computed implicit-Euler residual (true projection) with "
                        "newton_tol*(1+1e-6) + sqrt(n)*1e-8 (the code's activity margin)"]
    chk.replay_behaviours(num=250 if not chk.thorough else 2000)
    return chk.finish(rule="MC over all accept/reject/fail sequences of the 4 controllers with lamb_max within reach + traced "
                           "solves with injected failures and tiny lamb_max")
