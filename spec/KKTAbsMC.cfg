SPECIFICATION KKTSpec
INVARIANT Derivation
CHECK_DEADLOCK FALSE
