"""C12 counters, callbacks and the recorded path tell one consistent story."""
import numpy as np

from harness.checklib import Check
from harness.checks.common import family_spec, mixed_groups
from harness import gen
from pygradflow.params import PenaltyUpdate, StepControlType


def groups(n, seed):
    gs = mixed_groups(n, seed, "C12", limit=40, collect=True)
    rng = np.random.default_rng(seed + 1)
    # filter policies veto steps after the controller accepted them; limit 0; zero-length runs
    for i in range(n // 3):
        pk = gen.random_params(rng, iteration_limit=int(rng.integers(0, 30)), collect_path=True,
                               penalty_update=[PenaltyUpdate.ObjectiveFilter, PenaltyUpdate.LagrangianFilter][i % 2])
        gs.append({"tag": "C12.filter", "runs": [{"prob": family_spec(i, rng), "params": pk}]})
    # several solver objects in one process, each with its own observers: a solver's story is told to its own callbacks only
    for i in range(max(4, n // 15)):
        pk = gen.random_params(rng, iteration_limit=15, collect_path=True)
        ps3 = family_spec(i, rng)
        gs.append({"tag": "C12.twosolvers", "runs": [
            {"prob": ps3, "params": pk, "run": "A"},
            {"prob": ps3 if i % 2 == 0 else family_spec(i + 1, rng), "params": gen.random_params(rng, iteration_limit=12, collect_path=bool(i % 2)), "run": "B"},
            {"prob": ps3, "params": pk, "run": "C"}]})
    # user-supplied starts outside the variable box: the first announced step starts from the transformed x0 itself
    for i in range(max(4, n // 15)):
        nv = int(rng.integers(2, 5))
        ps = ("convex_qp", int(rng.integers(0, 2 ** 31)), nv, int(rng.integers(0, 2)),
              {"var_kinds": [["boxed", "lower", "upper", "free"][(i + j) % 4] for j in range(nv)]})
        pk = gen.random_params(rng, iteration_limit=20, collect_path=True)
        gs.append({"tag": "C12.outside", "runs": [{"prob": ps, "params": pk, "x0_outside": [0.5, -0.25, 2.0][i % 3]}]})
    return gs


def main():
    chk = Check("C12")
    chk.mc("GF_small.cfg" if chk.thorough else "GF_q_small.cfg")
    chk.tv(groups(900 if chk.thorough else 90, chk.seed), "C12 sweep")
    chk.assumptions += ["dist_factor >= 1 is compared with slack 4k*2^-52 (sum of k float norms)",
                        "model-time increments are compared bit-exactly (same IEEE addition)"]
    chk.replay_behaviours(num=500 if not chk.thorough else 6000)
    return chk.finish(rule="MC of the solve loop (all outcome sequences within bounds) + traced real solves with "
                           "collect_path over all controllers/policies; distinct = distinct (problem,params,outcome) groups with >=1 trial")
