SPECIFICATION Spec
CONSTANTS
  Vals = {0, 2, 3, 8, 12, 24, 32, 64, 160, 1280}
  JVals = {0, 2, 3, 16, 40, 384}
  KVals = {0, 2, 3, 8, 16, 24, 40, 96}
INVARIANT C20_Nominal
INVARIANT C20_GradJac
INVARIANT C20_KKT
INVARIANT C20_KKTTerminates
CHECK_DEADLOCK FALSE
