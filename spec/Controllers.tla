----------------------------- MODULE Controllers -----------------------------
(***************************************************************************)
(* Decision logic of the four step-size controllers (C15), as a function   *)
(* of what the Newton iteration shows them.  An *observation script* says, *)
(* for the Newton steps 1, 2, ... of one trial: is the implicit-Euler      *)
(* residual at that iterate <= newton_tol (resLe), is the step length zero *)
(* (diffZero), has the deadline passed at the clock read after that step   *)
(* (dl), is the contraction estimate acceptable (thetaLe for the ratio     *)
(* controllers, rateLe for the exact one).  The verdict is: accepted?,     *)
(* which Newton iterate is returned, how many Newton steps were taken, and *)
(* the rule for the next inverse step size.  Inverse step sizes are ranks  *)
(* 0..MaxVal (level k = lamb_min * 2^k; lamb_inc = 2, lamb_red = 1/2).     *)
(* Every case is replayed on the real controller classes with a scripted   *)
(* Newton method, residual function and timer.                             *)
(***************************************************************************)
EXTENDS Integers, Sequences, FiniteSets

CONSTANTS MaxVal, MaxK      \* MaxK: Newton steps scripted for the exact controller

VARIABLES cs, out

Obs == [resLe : BOOLEAN, diffZero : BOOLEAN, dl : BOOLEAN, goodRate : BOOLEAN]
Ctls == {"Exact", "Fixed", "ResRatio", "DistRatio"}

Dbl(l) == IF l < MaxVal THEN l + 1 ELSE MaxVal
Half(l) == l - 1                      \* the exact controller halves without a floor (may go below lamb_min)
Red(l) == IF l > 0 THEN l - 1 ELSE 0  \* max(lamb * lamb_red, lamb_min)

V(acc, ret, k, rule, nxt) == [accepted |-> acc, returned |-> ret, steps |-> k, rule |-> rule, lambNext |-> nxt]

(* ExactController.step: up to 10 Newton steps; after each: clock read, residual test, rate test *)
RECURSIVE Exact(_, _, _)
Exact(o, l, k) ==
  IF k > Len(o) THEN V(FALSE, Len(o), Len(o), "dbl", Dbl(l))                    \* iteration budget exhausted: reject
  ELSE IF o[k].dl THEN V(FALSE, 0, k, "keep", l)                                 \* deadline: abandon, step size unchanged
  ELSE IF o[k].resLe THEN V(TRUE, k, k, "half", Half(l))
  ELSE IF ~o[k].goodRate THEN V(FALSE, k, k, "dbl", Dbl(l))
  ELSE Exact(o, l, k + 1)

ResRatio(o, l, pi) ==
  IF o[1].resLe THEN V(TRUE, 1, 1, "red", Red(l))
  ELSE IF o[1].goodRate THEN V(TRUE, 1, 1, "pi", pi) ELSE V(FALSE, 1, 1, "inc", Dbl(l))

DistRatio(o, l, pi) ==
  IF o[1].resLe THEN V(TRUE, 1, 1, "red", Red(l))
  ELSE IF o[1].diffZero THEN V(TRUE, 1, 1, "same", l)
  ELSE IF o[2].diffZero THEN V(TRUE, 2, 2, "same", l)
  ELSE IF o[2].goodRate THEN V(TRUE, 2, 2, "pi", pi) ELSE V(FALSE, 2, 2, "inc", Dbl(l))

Verdict(c) ==
  CASE c.ctl = "Exact" -> Exact(c.obs, c.lamb, 1)
    [] c.ctl = "Fixed" -> V(TRUE, 1, 1, "init", c.lambInit)
    [] c.ctl = "ResRatio" -> ResRatio(c.obs, c.lamb, c.pi)
    [] OTHER -> DistRatio(c.obs, c.lamb, c.pi)

Scripts(n) == [1..n -> Obs]
CasesOf(c) == {[ctl |-> c, obs |-> o, lamb |-> l, lambInit |-> 1, pi |-> p] :
                 l \in 0..(MaxVal - 1), p \in {0, MaxVal - 1}, o \in (IF c = "Exact" THEN Scripts(MaxK) ELSE Scripts(2))}
Cases == UNION {CasesOf(c) : c \in Ctls}

Init == cs \in Cases /\ out = Verdict(cs)
Spec == Init /\ [][UNCHANGED <<cs, out>>]_<<cs, out>>

(* C15 on the decision logic *)
C15_RejectShrinks == (~out.accepted /\ out.rule # "keep") => out.lambNext > cs.lamb
C15_ExactAcceptSolves == (cs.ctl = "Exact" /\ out.accepted) => cs.obs[out.returned].resLe
C15_DeadlineNeverAccepted == (cs.ctl = "Exact" /\ out.rule = "keep") => (~out.accepted /\ out.returned = 0)
C15_AcceptedReturnsLastStep == out.accepted => out.returned = out.steps
C15_FixedAlwaysAccepts == cs.ctl = "Fixed" => out.accepted
=============================================================================
