SPECIFICATION MCFairSpec
CONSTANTS
  Runs = {"A"}
  Mode = "mc"
  Faithful = {}
  Tabs <- MCTabs
  MaxVal = 3
  MaxRho = 3
  MaxIter = 2
  MaxK = 2
  MaxF = 1
  CfgSpace <- LiveCfgs
  SimBias = FALSE
CHECK_DEADLOCK FALSE
INVARIANT NoViolation
PROPERTY C02_LimitedRunsTerminate
