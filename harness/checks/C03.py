"""C03 well-posed convex programs are actually solved (exploration; every run is also trace-validated)."""
import numpy as np

from harness import gen
from harness.checklib import Check
from pygradflow.params import NewtonType, StepControlType, StepSolverType

BUDGET = 2000


def wellposed(seed, n, m, kw=None):
    """Checks the hypotheses of the property numerically; returns False for instances outside the class."""
    rng = np.random.default_rng(seed)
    prob, x0, info = gen.convex_qp(rng, n, m, quad_rows=False, **(kw or {}))
    ev = np.linalg.eigvalsh(prob.Q)
    if ev.min() <= 1e-3 or ev.max() / ev.min() > 1e3:
        return False
    free = np.array([k != "fixed" for k in info["var_kinds"]])
    A = prob.A[:, free]
    if A.shape[0] > 0:
        if A.shape[0] >= A.shape[1]:
            return False
        sv = np.linalg.svd(A, compute_uv=False)
        if sv.min() < 1e-2 * sv.max():
            return False
    return True


def groups(n, seed):
    rng = np.random.default_rng(seed)
    variants = [dict()] + [dict(newton_type=t) for t in (NewtonType.Simplified, NewtonType.Full, NewtonType.ActiveSet)] + \
               [dict(step_solver_type=t) for t in (StepSolverType.Standard, StepSolverType.Extended, StepSolverType.Symmetric,
                                                   StepSolverType.Asymmetric)] + [dict(step_control_type=StepControlType.Exact)]
    gs = []
    rejected = 0
    i = 0
    while len(gs) < n:
        i += 1
        s = int(rng.integers(0, 2 ** 31))
        nn = int(rng.integers(2, 9))
        mm = int(rng.integers(0, min(4, nn - 1) + 1))
        kw = {"quad_rows": False}
        vertex = (i % 4 == 0)
        if vertex:
            # all variables bounded, start at a vertex of the box (every variable on a bound)
            krng = np.random.default_rng(s + 1)
            kw["var_kinds"] = [["lower", "boxed", "upper"][int(krng.integers(0, 3))] for _ in range(nn)]
        if i % 5 == 2 and nn >= 4:
            # several equality rows, with and without right-hand side, in both orders, mixed with one-sided rows
            kw["row_kinds"] = [["eq", "eq0"], ["eq0", "eq"], ["eq", "lower", "eq0"], ["upper", "eq", "eq0"], ["eq", "eq", "eq0"]][(i // 5) % 5]
            mm = len(kw["row_kinds"])
        if i % 7 == 3 and mm > 0:
            kw["row_scale"] = [0.3, 0.1, 0.05][(i // 7) % 3]        # rows with small coefficients (data O(0.1), same conditioning)
        if not wellposed(s, nn, mm, {k: v for k, v in kw.items() if k != "quad_rows"}):
            rejected += 1
            continue
        pk = dict(variants[len(gs) % len(variants)], iteration_limit=BUDGET, display_interval=1e9)
        rs = {"prob": ("convex_qp", s, nn, mm, kw), "params": pk, "wellposed": True}
        if vertex:
            rs["x0_on_bounds"] = True
        gs.append({"tag": "C03", "runs": [rs]})
    # strictly convex QPs over the simplex started at the origin (an infeasible vertex of the box)
    for k in range(n // 6):
        pk = dict(variants[[0, 8, 1, 6][k % 4]], iteration_limit=BUDGET, display_interval=1e9)
        gs.append({"tag": "C03.simplex", "runs": [{"prob": ("simplex", int(rng.integers(0, 2 ** 31)), int(rng.integers(2, 6))),
                                                   "params": pk, "wellposed": True}]})
    # banded large instances (the class names them explicitly): n = 40 .. 160, bandwidth 1 .. 3, sparse rows, CSR / CSC / COO
    for k in range(max(6, n // 12)):
        nn = [40, 80, 160, 60][k % 4]
        pk = dict(variants[[0, 1, 2, 3, 4, 5, 6, 7, 8][k % 9]], iteration_limit=BUDGET, display_interval=1e9)
        gs.append({"tag": "C03.banded", "runs": [{"prob": ("banded", int(rng.integers(0, 2 ** 31)), nn, [0, 3, 8][k % 3],
                                                           {"bw": 1 + k % 3, "fmt": ("csr", "csc", "coo")[k % 3]}),
                                                  "params": pk, "wellposed": True}]})
    return gs, rejected


def main():
    chk = Check("C03", level="exploration")
    gs, rejected = groups(900 if chk.thorough else 96, chk.seed)
    br = chk.tv(gs, "C03 sweep")
    chk.assumptions += ["class: strictly convex Q (cond <= 1e3), affine rows of full row rank on the non-fixed variables (sigma_min >= 1e-2 sigma_max), "
                        "a strictly feasible point by construction, data O(1); instances failing the numerical test of these hypotheses are "
                        "rejected and counted, not run", "budget %d iterations" % BUDGET]
    return chk.finish(rule="seeded strictly convex QPs (any mix of free/lower/upper/boxed/fixed variables and eq0/eq/lower/upper/ranged affine rows, "
                           "n<=8) from random in-bounds starts under the default configuration and each listed single-parameter variant; a run "
                           "is non-trivial if it took >= 1 trial; the clause wellposed.solved of GradFlow.tla is evaluated on every trace",
                      extra_cov={"rejected_instances": rejected, "statuses": br.statuses})
