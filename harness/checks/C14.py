"""C14 all step-solver and linear-solver choices compute the same Newton step (NewtonAlg.tla + replay)."""
from fractions import Fraction

import numpy as np

from harness.checklib import Check
from harness.checks.C13 import DATA, Poly1, fv
from harness.checks.C20 import _plain
from pygradflow.implicit_func import ImplicitFunc
from pygradflow.iterate import Iterate
from pygradflow.newton import newton_method
from pygradflow.params import LinearSolverType, NewtonType, Params, StepSolverType

DATA[3] = dict(q=(4, 2), r=-1, p=(2, -2), a=(-1, 2), d=0, b=-1)

COMBOS = []
for ss in (StepSolverType.Standard, StepSolverType.Extended, StepSolverType.Symmetric, StepSolverType.Asymmetric):
    for ls in (LinearSolverType.LU, LinearSolverType.GMRES, LinearSolverType.MINRES):
        if ls == LinearSolverType.MINRES and ss != StepSolverType.Symmetric:
            continue
        COMBOS.append((ss, ls))
TOL = {LinearSolverType.LU: 1e-9, LinearSolverType.GMRES: 2e-5, LinearSolverType.MINRES: 5e-3}


def replay(c, out, fmt, combos, newtons):
    prob = Poly1(c["dat"], c["box"], fmt)
    x = np.array(c["x"], dtype=float)
    y = np.array([float(c["y"])])
    rho = float(c["rho"])
    dt = 1.0 / float(c["lamb"])
    det = Fraction(out["det"])
    dx_ref = np.array([float(Fraction(v) / det) for v in out["X"]])
    dy_ref = float(Fraction(out["DYn"]) / Fraction(out["DYd"]))
    lb = np.array([fv(v) for v in c["box"]["lb"]])
    ub = np.array([fv(v) for v in c["box"]["ub"]])
    xn_ref = np.clip(x - dx_ref, lb, ub)
    scale = 1.0 + max(np.abs(dx_ref).max(), abs(dy_ref))
    # conditioning of the exact integer system: |adj| / |det| bounds the error amplification
    amp = 1.0 + 50.0 / abs(float(det))
    errs = []
    start = list(c["xhat"]) == list(c["x"]) and c["yhat"] == c["y"]
    for (ss, ls) in combos:
        for nt in newtons:
            if nt != NewtonType.Full and not start:
                continue   # Simplified / ActiveSet linearise at the previous iterate: comparable on the first step only
            params = Params(step_solver_type=ss, linear_solver_type=ls, newton_type=nt)
            it = Iterate(prob, params, x, y)
            orig = Iterate(prob, params, np.array(c["xhat"], dtype=float), np.array([float(c["yhat"])]))
            try:
                meth = newton_method(prob, params, orig, dt, rho)
                step = meth.step(it)
            except Exception as e:  # noqa
                name = type(e).__name__
                if name in ("StepSolverError",) and ls != LinearSolverType.LU:
                    continue  # an iterative solver may fail loudly (C17); not a wrong step
                errs.append(("raise:" + name, ss.name, ls.name, nt.name))
                continue
            tol = TOL[ls] * amp * scale
            xn = x - step.dx
            if not (np.abs(xn - xn_ref).max() <= tol and abs(float(step.dy[0]) - dy_ref) <= tol):
                errs.append(("step", ss.name, ls.name, nt.name,
                             [float(v) for v in step.dx], float(step.dy[0]), [float(v) for v in x - xn_ref], dy_ref))
            if DATA[c["dat"]]["d"] == 0 and ls == LinearSolverType.LU:
                # quadratic objective + affine constraint: one Newton step with unchanged active set solves the equation
                nxt = Iterate(prob, params, x - dx_ref, np.array([y[0] - dy_ref]))
                func = ImplicitFunc(prob, orig, dt)
                act = np.array([1 in out["act"], 2 in out["act"]])
                p_old = func.projection_initial(it, rho)
                p_new = func.projection_initial(nxt, rho)
                same_side = all(((p_old[j] < lb[j]) == (p_new[j] < lb[j])) and ((p_old[j] > ub[j]) == (p_new[j] > ub[j]))
                                for j in range(2))
                if same_side and (func.compute_active_set(nxt, rho) == act).all():
                    r = func.value_at(nxt, rho, act)
                    if np.abs(r).max() > 1e-9 * scale * amp:
                        errs.append(("onestep", ss.name, ls.name, nt.name, float(np.abs(r).max())))
    # with an explicit active-set prediction step tau (ActiveSetType.Explicit / Smallest / Largest hand one to every variant)
    # the three variants must still take the same first step from the same start
    if start:
        for tau in (0.25 * dt, 4.0 * dt):
            for ss in (StepSolverType.Standard, StepSolverType.Symmetric):
                got = {}
                for nt in (NewtonType.Full, NewtonType.Simplified, NewtonType.ActiveSet):
                    params = Params(step_solver_type=ss, linear_solver_type=LinearSolverType.LU, newton_type=nt)
                    it = Iterate(prob, params, x, y)
                    orig = Iterate(prob, params, x, y)
                    try:
                        st = newton_method(prob, params, orig, dt, rho, tau).step(it)
                        got[nt.name] = (np.array(st.dx, dtype=float), float(st.dy[0]))
                    except Exception as e:  # noqa: a singular system for this active set is the same for all variants
                        got[nt.name] = ("raise", type(e).__name__)
                ref = got["Full"]
                for name in ("Simplified", "ActiveSet"):
                    g = got[name]
                    if isinstance(ref[0], str) or isinstance(g[0], str):
                        same = isinstance(ref[0], str) and isinstance(g[0], str)
                    else:
                        tol = TOL[LinearSolverType.LU] * amp * (1.0 + np.abs(ref[0]).max() + abs(ref[1]))
                        same = bool(np.abs(g[0] - ref[0]).max() <= tol and abs(g[1] - ref[1]) <= tol)
                    if not same:
                        errs.append(("firststep.tau", ss.name, "LU", name, float(tau / dt)))
    # the step is a function of (point, step size, penalty, active set): re-using one solver object across active-set
    # changes must not change it (derivative data must not be modified by a rebuild of the system matrix)
    from pygradflow.step.solver import step_solver
    for ss in (StepSolverType.Standard, StepSolverType.Extended, StepSolverType.Symmetric, StepSolverType.Asymmetric):
        params = Params(step_solver_type=ss, linear_solver_type=LinearSolverType.LU)
        it = Iterate(prob, params, x, y)
        orig = Iterate(prob, params, np.array(c["xhat"], dtype=float), np.array([float(c["yhat"])]))
        act = np.array([1 in out["act"], 2 in out["act"]])
        try:
            sol = step_solver(prob, params, orig, dt, rho)
            sol.update_derivs(it)
            for As in (act, ~act, np.array([True, False]), act):
                sol.update_active_set(As)
                try:
                    step = sol.solve(it)
                except Exception as e:  # noqa: other active sets may give singular systems
                    if As is act:
                        raise
                    step = None
            tol = TOL[LinearSolverType.LU] * amp * scale
            xn = x - step.dx
            if not (np.abs(xn - xn_ref).max() <= tol and abs(float(step.dy[0]) - dy_ref) <= tol):
                errs.append(("step.reused_solver", ss.name, "LU", "-", [float(v) for v in step.dx], float(step.dy[0]),
                             [float(v) for v in x - xn_ref], dy_ref))
        except Exception as e:  # noqa
            errs.append(("raise.reused_solver:" + type(e).__name__, ss.name, "LU", "-"))
    # the step is a function of the penalty it is asked for: the solver keeps its Iterate objects across a penalty update, so
    # a step with another penalty computed first on the SAME iterates must not change the step for rho (seed C14-i)
    for ss in (StepSolverType.Standard, StepSolverType.Extended, StepSolverType.Symmetric, StepSolverType.Asymmetric):
        params = Params(step_solver_type=ss, linear_solver_type=LinearSolverType.LU, newton_type=NewtonType.Full)
        it = Iterate(prob, params, x, y)
        orig = it if start else Iterate(prob, params, np.array(c["xhat"], dtype=float), np.array([float(c["yhat"])]))
        for other in (rho + 3.0, 0.0):
            try:
                newton_method(prob, params, orig, dt, other).step(it)
            except Exception:  # noqa: the system for the other penalty may be singular; only its side effects matter here
                pass
        try:
            step = newton_method(prob, params, orig, dt, rho).step(it)
            tol = TOL[LinearSolverType.LU] * amp * scale
            xn = x - step.dx
            if not (np.abs(xn - xn_ref).max() <= tol and abs(float(step.dy[0]) - dy_ref) <= tol):
                errs.append(("step.penalty_changed", ss.name, "LU", "Full", [float(v) for v in step.dx], float(step.dy[0]),
                             [float(v) for v in x - xn_ref], dy_ref))
        except Exception as e:  # noqa
            errs.append(("raise.penalty_changed:" + type(e).__name__, ss.name, "LU", "Full"))
    return errs


def main():
    chk = Check("C14")
    chk.mc("NewtonAlg_w.cfg", module="NewtonAlgMC.tla", must_violate="C14_FormulationsAgree")
    states = chk.mc_dump("NewtonAlg_full.cfg" if chk.thorough else "NewtonAlg_q.cfg", "NewtonAlgMC.tla")
    if states is not None:
        fmts = ("coo", "csr", "csc")
        newtons = (NewtonType.Full, NewtonType.Simplified, NewtonType.ActiveSet)
        stride = 1 if chk.thorough else 2
        for si, st in enumerate(states):
            if ((si * 2654435761 >> 8) + chk.seed) % stride:      # scattered, not periodic: the enumeration order is structured
                continue
            c, out = st["c"], st["out"]
            combos = COMBOS if (chk.thorough or si % 4 == 0) else COMBOS[(si // 2) % len(COMBOS):][:3]
            try:
                errs = replay(c, out, fmts[si % 3], combos, newtons)
            except Exception as e:  # noqa
                errs = [("exception", type(e).__name__, str(e)[:80])]
            chk.case(si)
            if len(chk.samples) < 2 and si % 301 == 1:
                chk.samples.append({"case": _plain(c), "exact_step": _plain(out)})
            for e in errs:
                chk.kernel_violation(("newton." + e[0],) + tuple(e[1:3]), {"case": _plain(c), "exact_step": _plain(out), "observed": _plain(list(e))})
        chk.traces += chk.cases
    chk.assumptions += ["tolerances: LU 1e-9, GMRES 2e-5 (atol 1e-8), MINRES 5e-3 (scipy rtol 1e-5), each times the exact "
                        "amplification 1 + 50/|det| of the integer system and the step magnitude",
                        "only nonsingular cases (exact determinant != 0) are enumerated"]
    return chk.finish(rule="TLC proves on integer data (all active sets that occur, lamb, rho in {1,2}) that the block-eliminated scaled "
                           "system + back-substitution solves DL(As) s = FL exactly (Cramer), and exhibits the disagreement for the "
                           "H(y) variant (witness); each case is replayed through newton_method(...).step for 4 step solvers x "
                           "{LU, GMRES, MINRES} x {Simplified, Full, ActiveSet} and compared with the exact rational step",
                      extra_cov={"exhaustive": True})
