------------------------------ MODULE KKTAbsMC ------------------------------
(* Exhaustive enumeration of the internal class combinations of KKTAbs.    *)
EXTENDS KKTAbs
VARIABLES irow, ivar
KKTInit == irow \in IRow /\ ivar \in IVar
KKTNext == UNCHANGED <<irow, ivar>>
KKTSpec == KKTInit /\ [][KKTNext]_<<irow, ivar>>
Derivation == RowDerivation(irow) /\ VarDerivation(ivar)
(* non-vacuity witnesses (must be *violated*, checked by the harness)       *)
SomeInternalKKT == ~(BoundsDualConsistent(irow) /\ SlackStatConsistent(irow) /\ InternalKKT(irow) /\ irow.y = "pos")
=============================================================================
