"""C05 user functions are only evaluated inside the variable bounds."""
import numpy as np

from harness.checklib import Check
from harness import gen
from pygradflow.params import ActiveSetType, ScalingType


def groups(n, seed):
    rng = np.random.default_rng(seed)
    gs = []
    for i in range(n):
        pk = gen.random_params(rng, iteration_limit=30, newton_type=gen.NEWTONS[i % 4],
                               active_set_type=gen.ASETS[(i // 4) % 3])
        if i % 7 == 3:
            pk["active_set_type"] = ActiveSetType.Explicit
            pk["active_set_tau"] = float(rng.uniform(0.1, 2.0))
        if i % 3 == 0:
            ps = ("boxdomain", int(rng.integers(0, 2 ** 31)), int(rng.integers(2, 5)), int(rng.integers(0, 3)),
                  {"int_cons_bounds": bool(i % 2)})
        elif i % 3 == 1:
            ps = ("convex_qp", int(rng.integers(0, 2 ** 31)), int(rng.integers(2, 6)), int(rng.integers(0, 4)),
                  {"var_kinds": None})
        else:
            ps = ("repo", ["hs71", "hs71c", "tame"][i % 3])
        rs = {"prob": ps, "params": pk}
        sc = i % 5
        if sc == 1:
            rs["scaling"] = ("random", int(rng.integers(0, 2 ** 31)), 3)
        elif sc == 2:
            pk["scaling_type"] = [ScalingType.Nominal, ScalingType.GradJac, ScalingType.KKT][i % 3]
        elif sc == 3:
            rs["scaling"] = ("signed", int(rng.integers(0, 2 ** 31)), 3, [-1, 1][(i // 5) % 2])     # only shrinking / only stretching
        gs.append({"tag": "C05", "runs": [rs]})
    return gs


def main():
    chk = Check("C05")
    chk.mc("GF_small.cfg" if chk.thorough else "GF_q_small.cfg")
    chk.tv(groups(1500 if chk.thorough else 120, chk.seed), "C05 sweep")
    chk.assumptions += ["in-box is tested at user level against the user's own bounds (exact under power-of-two scaling); "
                        "phases scaling and derivcheck are exempt as the property states"]
    return chk.finish(rule="traced solves over Newton types x active-set rules x scalings on problems whose objective is only "
                           "defined on the box; every callback call is one Eval event with its in-box flag")
