"""C06 solve() ends with a status or a deliberate error, never an internal crash."""
import numpy as np

from harness.checklib import Check
from harness.checks.common import family_spec
from harness import gen
from pygradflow.params import Precision, ScalingType


def groups(n, seed):
    rng = np.random.default_rng(seed)
    gs = []
    for i in range(n):
        pk = gen.random_params(rng, iteration_limit=int(rng.integers(1, 40)))
        if i % 4 == 0:
            pk["precision"] = Precision.Single
        if i % 5 == 0:
            pk["report_rcond"] = True
        if i % 6 == 0:
            pk["display_interval"] = None
        if i % 3 == 1:
            pk["collect_path"] = True
        if i % 9 == 0:
            pk["scaling_type"] = [ScalingType.Nominal, ScalingType.GradJac, ScalingType.KKT][i % 3]
        if i % 11 == 0:
            pk["validate_input"] = False
        rs = {"prob": family_spec(i, rng), "params": pk, "loglevel": ["WARNING", "INFO", "WARNING"][i % 3]}
        if i % 6 == 2:
            rs["prob"] = ("degenerate", int(rng.integers(0, 2 ** 31)), i // 6)
        if i % 6 == 5:
            # exactly singular first Newton matrix (curvature -lamb_init): the linear solver's own failure path
            from pygradflow.params import LinearSolverType
            lam = [1.0, 2.0, 0.5][(i // 12) % 3]
            rs["prob"] = ("saddle", int(rng.integers(0, 2 ** 31)), int(rng.integers(2, 4)), lam)
            pk["lamb_init"] = lam
            pk["linear_solver_type"] = LinearSolverType.LU
            pk["step_solver_type"] = gen.STEPSOLVERS[(i // 12) % 4]
            pk.pop("scaling_type", None)
        if i % 8 == 1:
            rs["scaling"] = ("random", int(rng.integers(0, 2 ** 31)), 4)
        if i % 10 == 7:
            rs["x0_on_bounds"] = True
        gs.append({"tag": "C06", "runs": [rs]})
    return gs


class _Lin(__import__("pygradflow.problem", fromlist=["Problem"]).Problem):
    def __init__(self, g, lb, ub):
        self.g = np.array(g, dtype=float)
        super().__init__(np.array(lb, dtype=float), np.array(ub, dtype=float), num_cons=0)

    def obj(self, x):
        return float(self.g @ x)

    def obj_grad(self, x):
        return self.g.copy()

    def lag_hess(self, x, y):
        import scipy.sparse as sps
        return sps.coo_matrix((x.size, x.size))


def replay_tau(chk):
    """TauRule.tla: every case through NewtonController.compute_tau for the Smallest/Largest active-set rules."""
    from pygradflow.iterate import Iterate
    from pygradflow.params import ActiveSetType, Params
    from pygradflow.step.step_control import step_controller

    states = chk.mc_dump("TauRule.cfg", "TauRuleMC.tla")
    if states is None:
        return
    INF = 1000

    def fv(v):
        return np.inf if v >= INF else (-np.inf if v <= -INF else float(v))

    def q(p):
        return np.inf if p[0] >= INF / 2 and p[1] <= 2 else p[0] / p[1]

    for si, st in enumerate(states):
        c, out = st["cs"], st["out"]
        prob = _Lin(c["g"], [fv(v) for v in c["lb"]], [fv(v) for v in c["ub"]])
        for rule, key in ((ActiveSetType.SmallestActiveSet, "smallest"), (ActiveSetType.LargestActiveSet, "largest")):
            params = Params(active_set_type=rule)
            it = Iterate(prob, params, np.array(c["x"], dtype=float), np.zeros(0))
            chk.case(("tau", si, key))
            try:
                tau = step_controller(prob, params).compute_tau(it, 1.0)
            except Exception as e:  # noqa
                chk.kernel_violation(("tau.exception", key, type(e).__name__), {"case": {k: list(v) for k, v in c.items()}, "error": str(e)[:120]})
                continue
            exp = q(out[key])
            ok = (np.isinf(exp) and np.isinf(tau)) or (np.isfinite(exp) and abs(tau - exp) <= 1e-12 * max(1.0, abs(exp)))
            if not ok or not (tau > 0):
                if tau > 0 and np.isfinite(tau):
                    chk.drift["tau.value." + key] = chk.drift.get("tau.value." + key, 0) + 1
                else:
                    chk.kernel_violation(("tau.not.positive", key), {"case": {k: list(v) for k, v in c.items()}, "tau": float(tau)})
    chk.traces += len(states)


def main():
    chk = Check("C06")
    replay_tau(chk)
    chk.mc("GF_small.cfg" if chk.thorough else "GF_q_small.cfg")
    chk.tv(groups(4000 if chk.thorough else 160, chk.seed), "C06 sweep")
    return chk.finish(rule="randomised sweep of the configuration product (Newton x step solver x linear solver x controller x "
                           "penalty x active-set rule x scaling x precision x reporting) over feasible, infeasible, unbounded and "
                           "degenerate families; every Raise event is classified into the four deliberate kinds or Internal")
