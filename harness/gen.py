"""Problem families and configuration samplers for code -> spec runs (DESIGN 4.4).

All problems are plain pygradflow Problems written here (independent of the repository's test
instances, which are loaded too).  Data are seeded; nothing uses global random state.
"""
import importlib.util
import os
import itertools

import numpy as np
import scipy.sparse as sps

from pygradflow.params import (
    ActiveSetType,
    LinearSolverType,
    NewtonType,
    Params,
    PenaltyUpdate,
    Precision,
    ScalingType,
    StepControlType,
    StepSolverType,
)
from pygradflow.problem import Problem

INF = np.inf


def _fmt(mat, fmt):
    m = sps.coo_matrix(mat)
    return m.asformat(fmt)


class GenProblem(Problem):
    """f(x) = 1/2 x'Qx + c'x + sum_j w_j (x_j - xl_j)^(5/2)   (power terms only where w_j > 0: they
    are NaN outside the box, so an out-of-box evaluation is visible),
    c_i(x) = a_i'x + 1/2 sum_j D_ij x_j^2 - b_i,  cl <= c(x) <= cu."""

    def __init__(self, Q, c, A, D, b, cl, cu, xl, xu, w=None, fmt="coo", int_cons_bounds=False):
        self.Q = np.asarray(Q, dtype=float)
        self.c = np.asarray(c, dtype=float)
        self.A = np.asarray(A, dtype=float).reshape((-1, self.c.size))
        self.D = np.asarray(D, dtype=float).reshape(self.A.shape)
        self.b = np.asarray(b, dtype=float)
        self.w = np.zeros_like(self.c) if w is None else np.asarray(w, dtype=float)
        self.fmt = fmt
        m = self.A.shape[0]
        if m > 0:
            cl = np.asarray(cl, dtype=float)
            cu = np.asarray(cu, dtype=float)
            if int_cons_bounds and np.isfinite(cl).all() and np.isfinite(cu).all():
                # callers may hand over bound arrays of any numeric dtype: integral bounds as an integer array
                cl = np.floor(cl).astype(int)
                cu = np.ceil(cu).astype(int)
            super().__init__(np.asarray(xl, dtype=float), np.asarray(xu, dtype=float), cons_lb=cl, cons_ub=cu)
        else:
            super().__init__(np.asarray(xl, dtype=float), np.asarray(xu, dtype=float), num_cons=0)

    def _pw(self, x, p):
        act = self.w > 0
        out = np.zeros_like(x)
        if act.any():
            with np.errstate(invalid="ignore"):
                out[act] = self.w[act] * np.power(x[act] - self.var_lb[act], p)
        return out

    def obj(self, x):
        return float(0.5 * x @ self.Q @ x + self.c @ x + self._pw(x, 2.5).sum())

    def obj_grad(self, x):
        return self.Q @ x + self.c + 2.5 * self._pw(x, 1.5)

    def cons(self, x):
        return self.A @ x + 0.5 * self.D @ (x * x) - self.b

    def cons_jac(self, x):
        return _fmt(self.A + self.D * x[None, :], self.fmt)

    def lag_hess(self, x, y):
        H = self.Q + np.diag(2.5 * 1.5 * self._pw(x, 0.5))
        if self.A.shape[0] > 0:
            H = H + np.diag(self.D.T @ y)
        return _fmt(H, self.fmt)


VAR_KINDS = ("free", "lower", "upper", "boxed", "fixed")
ROW_KINDS = ("eq0", "eq", "lower", "upper", "ranged")


def random_spd(rng, n, cond=50.0):
    M = rng.standard_normal((n, n))
    Qm, _ = np.linalg.qr(M)
    ev = np.exp(rng.uniform(0, np.log(cond), size=n))
    return (Qm * ev) @ Qm.T


def convex_qp(rng, n, m, var_kinds=None, row_kinds=None, fmt="coo", quad_rows=False, mag=1.0, row_scale=1.0):
    """Strictly convex QP (or mildly nonlinear if quad_rows) with a prescribed strictly feasible
    point; returns (problem, x0 in bounds, info)."""
    var_kinds = var_kinds or [VAR_KINDS[rng.integers(0, 5)] for _ in range(n)]
    row_kinds = row_kinds or [ROW_KINDS[rng.integers(0, 5)] for _ in range(m)]
    m = min(m, max(0, sum(k != "fixed" for k in var_kinds) - 1)) if m else 0
    row_kinds = row_kinds[:m]
    Q = random_spd(rng, n) * mag
    xf = rng.uniform(-1.0, 1.0, size=n)  # feasible point
    xl = np.full(n, -INF)
    xu = np.full(n, INF)
    for j, k in enumerate(var_kinds):
        lo = xf[j] - rng.uniform(0.2, 1.5)
        hi = xf[j] + rng.uniform(0.2, 1.5)
        if k in ("lower", "boxed"):
            xl[j] = lo
        if k in ("upper", "boxed"):
            xu[j] = hi
        if k == "fixed":
            xl[j] = xu[j] = xf[j]
    A = rng.standard_normal((m, n)) * row_scale
    for j, k in enumerate(var_kinds):
        if k == "fixed" and m:
            A[:, j] *= 0.1
    D = np.zeros((m, n))
    if quad_rows and m:
        D = rng.uniform(-0.2, 0.2, size=(m, n)) * (rng.uniform(size=(m, n)) < 0.4)
    cf = A @ xf + 0.5 * D @ (xf * xf)
    b = np.zeros(m)
    cl = np.zeros(m)
    cu = np.zeros(m)
    for i, k in enumerate(row_kinds):
        if k == "eq0":
            b[i] = cf[i]
        elif k == "eq":
            b[i] = 0.0
            cl[i] = cu[i] = cf[i]
        elif k == "lower":
            cl[i] = cf[i] - rng.uniform(0.1, 1.0)
            cu[i] = INF
        elif k == "upper":
            cl[i] = -INF
            cu[i] = cf[i] + rng.uniform(0.1, 1.0)
        elif k == "narrow":
            # a ranged row of large magnitude and small relative width (still a genuine range, not an equation)
            V = float(10.0 ** rng.integers(3, 7)) * (1.0 if rng.uniform() < 0.5 else -1.0)
            b[i] = cf[i] - V
            w = 5e-6 * abs(V)
            t = rng.uniform(0.2, 0.8)
            cl[i] = V - t * w
            cu[i] = V + (1 - t) * w
        else:
            cl[i] = cf[i] - rng.uniform(0.1, 1.0)
            cu[i] = cf[i] + rng.uniform(0.1, 1.0)
    xs = xf + rng.uniform(-2.0, 2.0, size=n)
    c = -Q @ xs * 1.0
    prob = GenProblem(Q, c, A, D, b, cl, cu, xl, xu, fmt=fmt)
    x0 = np.clip(rng.uniform(-2.0, 2.0, size=n), xl, xu)
    x0 = np.where(np.isfinite(x0), x0, 0.0)
    return prob, x0, {"var_kinds": var_kinds, "row_kinds": row_kinds, "feasible_point": xf}


def banded_qp(rng, n, m, bw=2, fmt="csr"):
    """Large banded strictly convex QP: Q banded and strictly diagonally dominant (eigenvalues in [1.2, 5.8]), m affine rows
    with disjoint supports of bw + 1 consecutive variables (full row rank, orthogonal rows), every kind of variable and row,
    a strictly feasible point by construction; returns (problem, in-bounds start, info)."""
    Q = np.diag(rng.uniform(2.0, 5.0, size=n))
    for k in range(1, bw + 1):
        off = rng.uniform(-0.4 / bw, 0.4 / bw, size=n - k)
        Q += np.diag(off, k) + np.diag(off, -k)
    var_kinds = [VAR_KINDS[rng.integers(0, 5)] for _ in range(n)]
    xf = rng.uniform(-1.0, 1.0, size=n)
    xl = np.full(n, -INF)
    xu = np.full(n, INF)
    for j, k in enumerate(var_kinds):
        if k in ("lower", "boxed"):
            xl[j] = xf[j] - rng.uniform(0.2, 1.5)
        if k in ("upper", "boxed"):
            xu[j] = xf[j] + rng.uniform(0.2, 1.5)
        if k == "fixed":
            xl[j] = xu[j] = xf[j]
    m = min(m, n // (bw + 2))
    A = np.zeros((m, n))
    starts = sorted(rng.choice(n // (bw + 2), size=m, replace=False))
    for i, s0 in enumerate(starts):
        cols = np.arange(s0 * (bw + 2), s0 * (bw + 2) + bw + 1)
        A[i, cols] = rng.choice([-1.0, 1.0], size=bw + 1) * rng.uniform(0.5, 1.5, size=bw + 1)
        for j in cols:                      # keep every row supported on movable variables
            if var_kinds[j] == "fixed":
                var_kinds[j] = "free"
                xl[j], xu[j] = -INF, INF
    row_kinds = [ROW_KINDS[rng.integers(0, 5)] for _ in range(m)]
    cf = A @ xf
    b = np.zeros(m)
    cl = np.zeros(m)
    cu = np.zeros(m)
    for i, k in enumerate(row_kinds):
        if k == "eq0":
            b[i] = cf[i]
        elif k == "eq":
            cl[i] = cu[i] = cf[i]
        elif k == "lower":
            cl[i], cu[i] = cf[i] - rng.uniform(0.1, 1.0), INF
        elif k == "upper":
            cl[i], cu[i] = -INF, cf[i] + rng.uniform(0.1, 1.0)
        else:
            cl[i], cu[i] = cf[i] - rng.uniform(0.1, 1.0), cf[i] + rng.uniform(0.1, 1.0)
    xs = xf + rng.uniform(-2.0, 2.0, size=n)
    prob = GenProblem(Q, -Q @ xs, A, np.zeros((m, n)), b, cl, cu, xl, xu, fmt=fmt)
    x0 = np.clip(rng.uniform(-2.0, 2.0, size=n), xl, xu)
    return prob, x0, {"var_kinds": var_kinds, "row_kinds": row_kinds, "feasible_point": xf}


def degenerate_problem(rng, kind):
    """Degenerate but well-posed instances: all variables fixed / free rows / duplicate (rank-deficient) rows / empty
    Jacobian rows / huge magnitudes / pure feasibility problem / start exactly at the solution."""
    n = int(rng.integers(1, 4))
    kind = kind % 7
    Z = np.zeros
    if kind == 0:
        xl = rng.uniform(-1, 1, size=n)
        return GenProblem(random_spd(rng, n), rng.standard_normal(n), Z((0, n)), Z((0, n)), Z(0), Z(0), Z(0), xl, xl.copy()), xl.copy(), {}
    if kind == 1:
        A = rng.standard_normal((2, n))
        return GenProblem(random_spd(rng, n), rng.standard_normal(n), A, Z((2, n)), Z(2), np.full(2, -INF), np.full(2, INF),
                          np.full(n, -INF), np.full(n, INF)), rng.standard_normal(n), {}
    if kind == 2:
        a = rng.standard_normal(n)
        return GenProblem(random_spd(rng, n), rng.standard_normal(n), np.vstack([a, a, 2 * a]), Z((3, n)), Z(3), Z(3), Z(3),
                          np.full(n, -1.0), np.full(n, 1.0)), Z(n), {}
    if kind == 3:
        return GenProblem(random_spd(rng, n), rng.standard_normal(n), Z((2, n)), Z((2, n)), Z(2), np.array([-1.0, 0.0]),
                          np.array([1.0, 0.0]), np.full(n, -1.0), np.full(n, 1.0)), Z(n), {}
    if kind == 4:
        s = float(10.0 ** rng.integers(4, 9))
        return GenProblem(random_spd(rng, n) * s, rng.standard_normal(n) * s, np.ones((1, n)) * s, Z((1, n)), Z(1), np.array([0.0]),
                          np.array([s]), np.full(n, -1.0), np.full(n, 1.0)), Z(n), {}
    if kind == 5:
        return GenProblem(Z((n, n)), Z(n), rng.standard_normal((1, n)), Z((1, n)), Z(1), np.array([0.5]), np.array([0.5]),
                          np.full(n, -2.0), np.full(n, 2.0)), Z(n), {}
    Q = random_spd(rng, n)
    xs = rng.uniform(-0.5, 0.5, size=n)
    return GenProblem(Q, -Q @ xs, Z((0, n)), Z((0, n)), Z(0), Z(0), Z(0), np.full(n, -1.0), np.full(n, 1.0)), xs.copy(), {}


def saddle_problem(rng, n, lamb):
    """Box-constrained quadratic with curvature exactly -lamb in one direction: with lamb_init = lamb the first Newton
    matrix (H + lamb I) is exactly singular, so a direct linear solver must report failure and the step be retried."""
    kappa = rng.uniform(0.5, 3.0, size=n)
    kappa[0] = -float(lamb)
    tgt = rng.uniform(-0.5, 1.5, size=n)
    Q = np.diag(kappa)
    c = -kappa * tgt
    c[0] = 0.0
    xl = np.full(n, -1.0)
    xu = np.full(n, 2.0 + rng.integers(0, 3))
    prob = GenProblem(Q, c, np.zeros((0, n)), np.zeros((0, n)), np.zeros(0), np.zeros(0), np.zeros(0), xl, xu)
    x0 = np.concatenate([[0.5], rng.uniform(-0.5, 1.5, size=n - 1)])
    return prob, x0, {}


def simplex_qp(rng, n):
    """Strictly convex QP over the unit simplex (sum x = 1, x >= 0, some variables also bounded above) with positive linear
    costs, started at the origin: an *infeasible vertex* of the box with the gradient pushing outward."""
    Q = random_spd(rng, n, cond=20.0)
    c = rng.uniform(0.2, 2.0, size=n)
    xu = np.where(rng.uniform(size=n) < 0.4, 1.0, INF)
    prob = GenProblem(Q, c, np.ones((1, n)), np.zeros((1, n)), np.array([1.0]), np.zeros(1), np.zeros(1), np.zeros(n), xu)
    return prob, np.zeros(n), {}


def boxdomain_problem(rng, n, m, fmt="coo", int_cons_bounds=False, interior=False):
    """Smooth non-convex problem whose objective is only defined on the box (power terms)."""
    xl = rng.uniform(-1.0, 0.0, size=n)
    xu = xl + rng.uniform(0.5, 2.0, size=n)
    Q = random_spd(rng, n, cond=10.0) - 0.3 * np.eye(n)
    xs = rng.uniform(xl - 0.5, xu + 0.5)
    c = -Q @ xs
    w = rng.uniform(0.2, 1.0, size=n)
    A = rng.standard_normal((m, n))
    D = rng.uniform(-0.3, 0.3, size=(m, n))
    xf = rng.uniform(xl, xu)
    cf = A @ xf + 0.5 * D @ (xf * xf)
    cl = cf - rng.uniform(0.0, 0.5, size=m)
    cu = cf + rng.uniform(0.0, 0.5, size=m)
    eq = rng.uniform(size=m) < 0.4
    cl[eq] = cu[eq] = cf[eq]
    prob = GenProblem(Q, c, A, D, np.zeros(m), cl, cu, xl, xu, w=w, fmt=fmt, int_cons_bounds=int_cons_bounds)
    x0 = rng.uniform(xl, xu)
    if interior:
        # well inside the box: the (x - xl)^2.5 terms have an unbounded third derivative at the bound
        x0 = xl + (0.25 + 0.5 * rng.uniform(size=n)) * (xu - xl)
    elif rng.uniform() < 0.3:
        x0[0] = xl[0]
    return prob, x0, {}


class QuarticInfeasible(Problem):
    """min 1/2 |x|^2  s.t.  K (x_1^4 + 1) = 0: infeasible, violation >= K, degenerate minimiser of the violation at x_1 = 0
    (iterates approach it gradually)."""

    def __init__(self, n, K):
        self.K = float(K)
        super().__init__(np.full(n, -INF), np.full(n, INF), num_cons=1)

    def obj(self, x):
        return float(0.5 * x @ x)

    def obj_grad(self, x):
        return np.array(x, dtype=float)

    def cons(self, x):
        return np.array([self.K * (x[0] ** 4 + 1.0)])

    def cons_jac(self, x):
        J = np.zeros((1, x.size))
        J[0, 0] = self.K * 4.0 * x[0] ** 3
        return sps.coo_matrix(J)

    def lag_hess(self, x, y):
        H = np.eye(x.size)
        H[0, 0] += y[0] * self.K * 12.0 * x[0] ** 2
        return sps.coo_matrix(H)


def infeasible_problem(rng, n):
    """Inconsistent affine rows / box-infeasible row / badly scaled degenerate infeasibility: locally infeasible."""
    Q = np.eye(n)
    c = rng.standard_normal(n)
    kind = rng.integers(0, 4)
    if kind == 3:
        K = float(10.0 ** rng.integers(0, 6))
        return QuarticInfeasible(n, K), np.concatenate([[rng.uniform(0.5, 1.5)], rng.standard_normal(n - 1)]), {}
    if kind == 0:  # a'x = 1 and a'x = -1
        a = rng.standard_normal(n)
        A = np.vstack([a, a])
        cl = cu = np.array([1.0, -1.0])
    elif kind == 1:  # x1^2 + 1 = 0 type: 1/2 x1^2 >= ... impossible
        A = np.zeros((1, n))
        cl = cu = np.array([-1.0])
        D = np.zeros((1, n))
        D[0, 0] = 2.0
        prob = GenProblem(Q, c, A, D, np.zeros(1), cl, cu, np.full(n, -INF), np.full(n, INF))
        return prob, rng.uniform(0.5, 1.5, size=n), {}
    else:  # row infeasible over the box
        A = np.ones((1, n))
        cl = np.array([2.0 * n + 1.0])
        cu = np.array([INF])
        prob = GenProblem(Q, c, A, np.zeros((1, n)), np.zeros(1), cl, cu, np.full(n, -1.0), np.full(n, 2.0))
        return prob, rng.uniform(-1.0, 2.0, size=n), {}
    prob = GenProblem(Q, c, A, np.zeros_like(A), np.zeros(A.shape[0]), cl, cu, np.full(n, -INF), np.full(n, INF))
    return prob, rng.standard_normal(n), {}


def unbounded_problem(rng, n):
    """Linear objective over a feasible cone (unbounded below)."""
    Q = np.zeros((n, n))
    c = -np.abs(rng.standard_normal(n)) - 0.5
    A = np.zeros((1, n))
    A[0, 0] = 1.0
    A[0, 1 % n] = -1.0
    cl = np.array([-1.0])
    cu = np.array([1.0])
    xl = np.zeros(n)
    xu = np.full(n, INF)
    prob = GenProblem(Q, c, A, np.zeros((1, n)), np.zeros(1), cl, cu, xl, xu)
    return prob, np.ones(n), {}


class LogDomainProblem(Problem):
    """f(x) = sum_i w_i (x_i - log x_i) + 1/2 |x - a|^2, free variables, optional row sum(x) >= s.
    The objective is NaN for x_i <= 0 although no bound says so: trial points may be non-evaluable."""

    def __init__(self, w, a, s=None):
        self.w = np.asarray(w, dtype=float)
        self.a = np.asarray(a, dtype=float)
        n = self.w.size
        if s is None:
            super().__init__(np.full(n, -INF), np.full(n, INF), num_cons=0)
        else:
            super().__init__(np.full(n, -INF), np.full(n, INF), cons_lb=np.array([float(s)]), cons_ub=np.array([INF]))

    def obj(self, x):
        with np.errstate(invalid="ignore", divide="ignore"):
            return float(np.sum(self.w * (x - np.log(x))) + 0.5 * np.sum((x - self.a) ** 2))

    def obj_grad(self, x):
        return self.w * (1.0 - 1.0 / x) + (x - self.a)

    def cons(self, x):
        return np.array([np.sum(x)])

    def cons_jac(self, x):
        return sps.coo_matrix(np.ones((1, x.size)))

    def lag_hess(self, x, y):
        return sps.diags(self.w / (x * x) + 1.0).tocoo()


class ExpGrowthProblem(Problem):
    """min sum_j exp(x_j) - b_j x_j on -5 <= x <= 800 (optionally x_1 + x_2 = c): exp overflows (inf, numpy 'overflow') at
    trial points near the upper bound; minimiser x_j = log b_j."""

    def __init__(self, b, cons=None):
        self.b = np.asarray(b, dtype=float)
        n = self.b.size
        self.c = cons
        if cons is None or n < 2:
            self.c = None
            super().__init__(np.full(n, -5.0), np.full(n, 800.0), num_cons=0)
        else:
            super().__init__(np.full(n, -5.0), np.full(n, 800.0), cons_lb=np.array([cons]), cons_ub=np.array([cons]))

    def obj(self, x):
        return float(np.sum(np.exp(x) - self.b * x))

    def obj_grad(self, x):
        return np.exp(x) - self.b

    def cons(self, x):
        return np.array([x[0] + x[1]]) if self.c is not None else np.zeros(0)

    def cons_jac(self, x):
        J = np.zeros((1 if self.c is not None else 0, x.size))
        if self.c is not None:
            J[0, :2] = 1.0
        return sps.coo_matrix(J)

    def lag_hess(self, x, y):
        return sps.coo_matrix(np.diag(np.exp(x)))


def boxlp_problem(rng, n):
    """(Nearly) linear objective over a box with non-dyadic bounds: the minimiser is a vertex, reached by a clipped step."""
    xl = -rng.uniform(0.05, 1.0, size=n)
    xu = rng.uniform(0.05, 1.0, size=n)
    cvec = rng.choice([-1.0, 1.0], size=n) * rng.uniform(0.5, 2.0, size=n)
    prob = GenProblem(1e-3 * np.eye(n), cvec, np.zeros((0, n)), np.zeros((0, n)), np.zeros(0), np.zeros(0), np.zeros(0), xl, xu)
    x0 = xl + (xu - xl) * rng.uniform(0.2, 0.8, size=n)
    return prob, x0, {}


def narrowrow_problem(rng, L):
    """min x0 + x1^2  s.t.  L <= x0 <= L + w (a genuine range of relative width 5e-6),  x0 >= L + 0.6 w: feasible, the
    minimiser has x0 = L + 0.6 w; were the row read as the equation x0 = L it would be infeasible over the box."""
    w = 5e-6 * L
    prob = GenProblem(np.diag([0.0, 2.0]), np.array([1.0, 0.0]), np.array([[1.0, 0.0]]), np.zeros((1, 2)), np.zeros(1),
                      np.array([L]), np.array([L + w]), np.array([L + 0.6 * w, -INF]), np.array([2.0 * L, INF]))
    x0 = np.array([L + float(rng.uniform(0.6, 3.0)) * w, float(rng.uniform(-1, 1))])
    return prob, x0, {}


def expgrowth_problem(rng, n, cons=False):
    b = rng.uniform(500.0, 5000.0, size=n)
    prob = ExpGrowthProblem(b, cons=float(np.log(b[:2]).sum() + 0.5) if (cons and n >= 2) else None)
    return prob, np.zeros(n), {}


def logdomain_problem(rng, n, cons=False):
    w = rng.uniform(0.5, 2.0, size=n)
    a = rng.uniform(0.5, 2.0, size=n)
    prob = LogDomainProblem(w, a, s=(0.5 * n if cons else None))
    return prob, rng.uniform(3.0, 8.0, size=n), {}


def equal_multiplier_problem(rng, n):
    """min sum (x_i - a_i)^2  s.t.  x_i = b_i: all multipliers have the same magnitude (2-norm >> inf-norm)."""
    b = rng.uniform(-1.0, 1.0, size=n)
    mag = float(rng.uniform(0.5, 5.0))
    a = b + 0.5 * mag * np.where(rng.uniform(size=n) < 0.5, -1.0, 1.0)
    prob = GenProblem(2.0 * np.eye(n), -2.0 * a, np.eye(n), np.zeros((n, n)), b, np.zeros(n), np.zeros(n),
                      np.full(n, -INF), np.full(n, INF))
    return prob, rng.uniform(-1.0, 1.0, size=n), {}


_REPO_CACHE = {}


def repo_instance(name):
    """The repository's own test problems, loaded by file path (tests/ must not be on sys.path)."""
    files = {"hs71": ("hs71", "HS71"), "hs71c": ("hs71_cons", "HS71Constrained"), "tame": ("tame", "Tame"),
             "rosenbrock": ("rosenbrock", "Rosenbrock")}
    f, cls = files[name]
    if f not in _REPO_CACHE:
        spec = importlib.util.spec_from_file_location("verif_tp_" + f, os.path.join(os.environ.get("VERIF_REPO", "/repo"), "tests/pygradflow/%s.py" % f))
        m = importlib.util.module_from_spec(spec)
        spec.loader.exec_module(m)
        _REPO_CACHE[f] = m
    prob = getattr(_REPO_CACHE[f], cls)()
    x0 = {"hs71": np.array([1.0, 5.0, 5.0, 1.0, 0.0]), "hs71c": np.array([1.0, 5.0, 5.0, 1.0]),
          "tame": np.array([0.0, 0.0]), "rosenbrock": np.array([0.0, 0.0])}[name]
    return prob, x0, {}


# ----------------------------------------------------------------------------- configurations

CTLS = [StepControlType.Exact, StepControlType.Fixed, StepControlType.ResiduumRatio, StepControlType.DistanceRatio]
NEWTONS = [NewtonType.Simplified, NewtonType.Full, NewtonType.ActiveSet, NewtonType.Globalized]
STEPSOLVERS = [StepSolverType.Standard, StepSolverType.Extended, StepSolverType.Symmetric, StepSolverType.Asymmetric]
PENS = [PenaltyUpdate.Constant, PenaltyUpdate.DualNorm, PenaltyUpdate.DualEquilibration,
        PenaltyUpdate.ParetoDecrease, PenaltyUpdate.ObjectiveFilter, PenaltyUpdate.LagrangianFilter]
ASETS = [ActiveSetType.Standard, ActiveSetType.SmallestActiveSet, ActiveSetType.LargestActiveSet]


def random_params(rng, **fixed):
    kw = dict(
        step_control_type=CTLS[rng.integers(0, 4)],
        newton_type=NEWTONS[rng.integers(0, 4)],
        step_solver_type=STEPSOLVERS[rng.integers(0, 4)],
        penalty_update=PENS[rng.integers(0, 6)],
        active_set_type=ASETS[rng.integers(0, 3)],
        linear_solver_type=LinearSolverType.LU,
        rho=float(10.0 ** rng.integers(-3, 2)),
        display_interval=1e9,
    )
    u1, u2 = rng.uniform(), rng.uniform()
    kw.update(fixed)
    if "linear_solver_type" not in fixed:
        if u1 < 0.25:
            kw["linear_solver_type"] = LinearSolverType.GMRES
        if u2 < 0.15 and kw["step_solver_type"] == StepSolverType.Symmetric:
            kw["linear_solver_type"] = LinearSolverType.MINRES     # MINRES is only supported with the symmetric step solver
    return kw


def pairwise_params(seed):
    """A deterministic covering of controller x newton x step solver x penalty (pairwise-ish)."""
    rng = np.random.default_rng(seed)
    combos = list(itertools.product(range(4), range(4), range(4), range(6)))
    rng.shuffle(combos)
    seen = set()
    out = []
    for (a, b, c, d) in combos:
        pairs = {("ab", a, b), ("ac", a, c), ("ad", a, d), ("bc", b, c), ("bd", b, d), ("cd", c, d)}
        if not pairs <= seen:
            seen |= pairs
            out.append(dict(step_control_type=CTLS[a], newton_type=NEWTONS[b], step_solver_type=STEPSOLVERS[c],
                            penalty_update=PENS[d]))
    return out
