"""Recording harness: runs the real pygradflow Solver.solve and logs one event per action of
spec/GradFlow.tla.  No source hooks: everything is observed at public call boundaries
(DESIGN 4.1).  Floats are kept as python floats wrapped in F(sort, value), arrays as interned
ids; harness/project.py turns a finished *group* of runs into the rank/id form TLC reads.
"""
import contextlib
import sys

import numpy as np
import scipy.sparse as sps

import pygradflow.linear_solver as _ls_pkg
import pygradflow.solver as _solver_mod
import pygradflow.step.newton_control as _nc_mod
import pygradflow.timer as _timer_mod
from pygradflow.eval import EvalError
from pygradflow.linear_solver import LinearSolverError
from pygradflow.params import (
    NewtonType,
    PenaltyUpdate,
    StepControlType,
)
from pygradflow.problem import Problem
from pygradflow.solver import Solver
from pygradflow.step.step_solver_error import StepSolverError


class RunawayLoop(Exception):
    """Raised by the recorder (not by pygradflow) to end a solve whose loop ignores the iteration limit."""


class MachineryError(Exception):
    """Raised for failures of the harness itself (exit 2, never a violation)."""


class F:
    """A float of a given sort, to be replaced by its rank."""

    __slots__ = ("sort", "v")

    def __init__(self, sort, v):
        self.sort = sort
        self.v = float(v)


# ----------------------------------------------------------------------------- interning


class Interner:
    def __init__(self):
        self.ids = {}
        self.arrays = []

    def intern(self, key, payload=None):
        i = self.ids.get(key)
        if i is None:
            i = len(self.arrays)
            self.ids[key] = i
            self.arrays.append(payload)
        return i


def zkey(x, y):
    return x.tobytes() + y.tobytes()


# ----------------------------------------------------------------------------- digests


def value_digest(obj):
    if sps.issparse(obj):
        fmt = obj.format
        if fmt == "coo":
            parts = (obj.row, obj.col, obj.data)
        elif fmt in ("csr", "csc", "bsr"):
            parts = (obj.indices, obj.indptr, obj.data)
        else:
            c = obj.tocoo()
            parts = (c.row, c.col, c.data)
        return (fmt, obj.shape) + tuple(np.asarray(p).tobytes() for p in parts)
    a = np.asarray(obj)
    return (a.shape, str(a.dtype), (a + 0.0).tobytes() if a.dtype.kind == "f" else a.tobytes())


def is_finite(obj):
    if sps.issparse(obj):
        return bool(np.isfinite(obj.data).all())
    try:
        return bool(np.isfinite(np.asarray(obj, dtype=float)).all())
    except (TypeError, ValueError):
        return False


# ----------------------------------------------------------------------------- phases

_PHASE_RULES = [
    # (function name, file suffix) -> phase ; first match walking outwards from the callee
    ("create_scaling", "scale.py", "scaling"),
    ("__getitem__", "display.py", "display"),
    ("display_step", "step_control.py", "display"),
    ("row", "display.py", "display"),
    ("_deriv_check", "solver.py", "derivcheck"),
    ("print_problem_stats", "display.py", "stats"),
    ("print_result", "solver.py", "result"),
    ("transform_sol", "cons_problem.py", "transform"),
    ("_verif_callback", "record.py", "callback"),
    ("__call__", "callbacks.py", "callback"),
    ("_verif_penalty_initial", "record.py", "penalty.initial"),
    ("_verif_penalty_update", "record.py", "penalty"),
    ("_verif_linesearch", "record.py", "linesearch"),
    ("compute_step", "step_control.py", "trial"),
    ("_check_terminate", "solver.py", "terminate"),
    ("_verif_obs", "record.py", "terminate"),
    ("_verif_result", "record.py", "result"),
    ("solve", "solver.py", "init"),
    ("__init__", "transform.py", "scaling"),
]


def current_phase():
    f = sys._getframe(1)
    linesearch = False
    while f is not None:
        name = f.f_code.co_name
        fn = f.f_code.co_filename
        if name == "step" and fn.endswith("newton.py") and "it" in f.f_locals:
            # evaluations made by the Armijo loop of the globalized Newton method
            linesearch = True
        for (n, suffix, phase) in _PHASE_RULES:
            if name == n and fn.endswith(suffix):
                if phase == "trial" and linesearch:
                    return "linesearch"
                if phase == "init":
                    # directly under solve(): before the loop it is check_eval (init) or the
                    # final bounds_dual / restore (result)
                    return "result" if f.f_locals.get("status", None) is not None else "init"
                return phase
        f = f.f_back
    return "unknown"


_CLOCK_SITES = [
    ("reached_time_limit", "timer.py", None),  # refined below
]


def clock_site():
    f = sys._getframe(2)
    names = []
    while f is not None and len(names) < 12:
        names.append((f.f_code.co_name, f.f_code.co_filename))
        f = f.f_back
    flat = [n for (n, _) in names]
    files = [fn for (_, fn) in names]

    def has(n, suffix):
        return any(a == n and b.endswith(suffix) for (a, b) in names)

    if has("reached_time_limit", "timer.py"):
        if has("_check_terminate", "solver.py"):
            return "terminate"
        if has("step", "exact_control.py") or has("_verif_inner_read", "loopdriver.py"):
            return "inner"
        return "limit.other"
    if has("should_display", "display.py"):
        return "display"
    if has("row", "display.py"):
        return "display.reset"
    if flat and flat[0] == "__init__" and files[0].endswith("timer.py"):
        if has("__init__", "display.py"):
            return "display.init"
        return "timer.init"
    if has("elapsed", "timer.py"):
        return "final"
    return "other"


class VirtualClock:
    """Stands in for the `time` module inside pygradflow.timer: deterministic readings."""

    def __init__(self, rec, tick=1.0, schedule=None):
        self.rec = rec
        self.now = 0.0
        self.tick = tick
        self.schedule = schedule  # optional callable(read_index, site) -> increment
        self.nreads = 0

    def time(self):
        site = clock_site()
        self.nreads += 1
        inc = self.tick if self.schedule is None else self.schedule(self.nreads, site)
        self.now += inc
        self.rec.on_clock(site, self.now)
        return self.now


# ----------------------------------------------------------------------------- problem wrapper


class RecordingProblem(Problem):
    """Wraps the user's problem.  Records every callback call (argument in bounds? result finite?
    caller-owned objects unchanged?), hosts fault plans and return policies."""

    COMPS = ("obj", "obj_grad", "cons", "cons_jac", "lag_hess")

    def __init__(self, inner, policy="fresh", fault=None):
        self.inner = inner
        self.policy = policy  # fresh | memo
        self.fault = fault  # callable(comp, call_index, x) -> None | "nan" | "inf"
        self.rec = None
        self.ncalls = {c: 0 for c in self.COMPS}
        self.total_calls = 0
        self.memo = {}
        self.owned = []  # (name, obj, digest) persistent caller-owned objects
        self.recent = []  # recently returned objects (bounded window)
        super().__init__(
            inner.var_lb, inner.var_ub, cons_lb=inner.cons_lb, cons_ub=inner.cons_ub
        ) if inner.num_cons > 0 else super().__init__(inner.var_lb, inner.var_ub, num_cons=0)
        self.own("var_lb", inner.var_lb)
        self.own("var_ub", inner.var_ub)
        self.own("cons_lb", inner.cons_lb)
        self.own("cons_ub", inner.cons_ub)

    def own(self, name, obj):
        if obj is None or np.isscalar(obj):
            return
        self.owned.append((name, obj, value_digest(obj)))

    def changed(self):
        """names of caller-owned objects whose value changed since last looked at (reported once)"""
        out = []
        for lst in (self.owned, self.recent):
            for k, (name, obj, dig) in enumerate(lst):
                nd = value_digest(obj)
                if nd != dig:
                    out.append(name)
                    lst[k] = (name, obj, nd)
        return sorted(set(out))

    def _call(self, comp, x, *extra):
        idx = self.ncalls[comp]
        self.ncalls[comp] += 1
        self.total_calls += 1
        x = np.asarray(x)
        inbox = bool((x >= self.inner.var_lb).all() and (x <= self.inner.var_ub).all())
        xarg = np.array(x, dtype=float, copy=True)
        key = (comp, xarg.tobytes()) + tuple(np.asarray(e).tobytes() for e in extra)
        if self.policy == "memo" and key in self.memo:
            val = self.memo[key]
        else:
            val = getattr(self.inner, comp)(xarg, *[np.array(e, copy=True) for e in extra])
            if self.policy == "memo":
                self.memo[key] = val
        kind = self.fault(comp, self.total_calls - 1, idx, xarg) if self.fault else None
        if kind == "wrong":
            # a finite but wrong value (first entry off by one): for derivative-check scenarios
            if comp == "obj":
                val = float(val) + 1.0
            elif sps.issparse(val):
                val = val.copy().astype(float)
                if val.nnz:
                    val.data[0] += 1.0
            else:
                val = np.array(val, dtype=float, copy=True)
                if val.size:
                    val.flat[0] += 1.0
        elif kind is not None:
            bad = np.nan if kind == "nan" else np.inf
            if comp == "obj":
                val = bad
            elif sps.issparse(val):
                val = val.copy().astype(float)
                if val.nnz == 0:
                    val = sps.coo_matrix(([bad], ([0], [0])), shape=val.shape)
                else:
                    val.data[0] = bad
            else:
                val = np.array(val, dtype=float, copy=True)
                if val.size:
                    val.flat[0] = bad
        finite = is_finite(val)
        if not np.isscalar(val) and val is not None:
            if self.policy == "memo":
                if not any(o is val for (_, o, _) in self.owned):
                    self.owned.append(("ret:" + comp, val, value_digest(val)))
            else:
                self.recent.append(("ret:" + comp, val, value_digest(val)))
                if len(self.recent) > 6:
                    self.recent.pop(0)
        if self.rec is not None:
            self.rec.on_user_eval(comp, inbox, finite, self.changed(), current_phase())
        return val

    def obj(self, x):
        return self._call("obj", x)

    def obj_grad(self, x):
        return self._call("obj_grad", x)

    def cons(self, x):
        return self._call("cons", x)

    def cons_jac(self, x):
        return self._call("cons_jac", x)

    def lag_hess(self, x, y):
        return self._call("lag_hess", x, y)


class RecordingEvaluator:
    """Wraps the transformation's evaluator (internal level): supplies the internal point id."""

    def __init__(self, inner, rec):
        self._inner = inner
        self._rec = rec
        self.problem = inner.problem
        self.dtype = inner.dtype

    @property
    def num_evals(self):
        return self._inner.num_evals

    def reset_num_evals(self):
        return self._inner.reset_num_evals()

    def _do(self, comp, x, *extra):
        rec = self._rec
        rec.eval_ctx.append({"xid": rec.xid(x), "user": None})
        raised = "none"
        try:
            return getattr(self._inner, comp)(x, *extra)
        except EvalError:
            raised = "EvalError"
            raise
        except Exception as e:  # noqa
            raised = type(e).__name__
            raise
        finally:
            ctx = rec.eval_ctx.pop()
            rec.on_eval_done(comp, ctx, raised)

    def obj(self, x):
        return self._do("obj", x)

    def obj_grad(self, x):
        return self._do("obj_grad", x)

    def cons(self, x):
        return self._do("cons", x)

    def cons_jac(self, x):
        return self._do("cons_jac", x)

    def lag_hess(self, x, y):
        return self._do("lag_hess", x, y)


# ----------------------------------------------------------------------------- recorder


class Recorder:
    """Event log of one *group* (one or several runs compared with shared interning)."""

    def __init__(self):
        self.events = []
        self.pts = Interner()  # iterates (x,y)
        self.xs = Interner()  # primal parts
        self.users = Interner()  # user-level arrays (result x, y, d)
        self.run = None
        self.eval_ctx = []
        self.meta = {}

    def emit(self, ev, **fields):
        d = {"ev": ev, "run": self.run}
        d.update(fields)
        self.events.append(d)
        return d

    def pid(self, it):
        x = np.asarray(it.x)
        y = np.asarray(it.y)
        return self.pts.intern(zkey(x, y), (x.copy(), y.copy()))

    def xid(self, x):
        x = np.asarray(x)
        return self.xs.intern(x.tobytes(), None)

    def uid(self, a):
        a = np.asarray(a)
        return self.users.intern((str(a.dtype), a.shape, a.tobytes()), a.copy())

    # -- evaluation events
    def on_user_eval(self, comp, inbox, finite, changed, phase):
        info = {"comp": comp, "inbox": inbox, "finite": finite, "changed": changed, "phase": phase}
        if self.eval_ctx:
            self.eval_ctx[-1]["user"] = info
        else:
            self.emit("Eval", comp=comp, phase=phase, xid=-1, inbox=inbox, ok=finite,
                      changed=changed, raised="none")

    def on_eval_done(self, comp, ctx, raised):
        u = ctx["user"]
        if u is None:
            if raised == "none":
                return  # evaluator answered without calling the user (no constraints)
            u = {"inbox": True, "finite": False, "changed": [], "phase": current_phase()}
        self.emit("Eval", comp=comp, phase=u["phase"], xid=ctx["xid"], inbox=u["inbox"],
                  ok=bool(u["finite"] and raised == "none"), changed=u["changed"], raised=raised)

    def on_clock(self, site, t):
        self.emit("Clock", site=site, t=F("TIME", t), expired=False)  # expired filled by project


# ----------------------------------------------------------------------------- traced solver

_CTL = {
    StepControlType.Exact: "Exact",
    StepControlType.Fixed: "Fixed",
    StepControlType.ResiduumRatio: "ResRatio",
    StepControlType.DistanceRatio: "DistRatio",
}
_PEN = {
    PenaltyUpdate.Constant: "Constant",
    PenaltyUpdate.DualNorm: "DualNorm",
    PenaltyUpdate.DualEquilibration: "DualEquil",
    PenaltyUpdate.ParetoDecrease: "Pareto",
    PenaltyUpdate.ObjectiveFilter: "ObjFilter",
    PenaltyUpdate.LagrangianFilter: "LagFilter",
}


def classify_raise(exc):
    msg = str(exc)
    if type(exc) is Exception and msg.startswith("Failed to evaluate initial iterate"):
        return "InitEval"
    if type(exc) is Exception and msg.startswith("Inverse step size"):
        return "LambMax"
    if type(exc) is Exception and msg.startswith("Line search failed"):
        return "LineSearch"
    if type(exc).__name__ == "DerivError":
        return "DerivCheck"
    return "Internal:" + type(exc).__name__


def innermost_frame(exc):
    tb = exc.__traceback__
    last = "?"
    while tb is not None:
        fn = tb.tb_frame.f_code.co_filename
        if "/pygradflow/" in fn:
            last = fn.split("/pygradflow/")[-1] + ":" + tb.tb_frame.f_code.co_name
        tb = tb.tb_next
    return last


class TracedSolver(Solver):
    """Solver whose two overridable methods log, and whose solve() installs the recording
    substitutes for the clock, the penalty strategy, the controller, the display, the Newton
    method and the linear solver factory."""

    def __init__(self, problem, params, rec, run="A", algkey=1, twin="none", obj_id=1,
                 clock_tick=1.0, clock_schedule=None, record_callback=True, extra_callbacks=()):
        self.rec = rec
        self._run = run
        self._algkey = algkey
        self._twin = twin
        self._obj_id = obj_id
        self._clock_tick = clock_tick
        self._clock_schedule = clock_schedule
        rec.run = run
        if isinstance(problem, RecordingProblem):
            problem.rec = rec
        self.user_problem = problem
        super().__init__(problem, params)
        self.transform.evaluator = RecordingEvaluator(self.transform.evaluator, rec)
        from pygradflow.callbacks import CallbackType

        for cb in extra_callbacks:
            self.callbacks.register(CallbackType.ComputedStep, cb)
        self._ncb = 0
        if record_callback:
            self._ncb = 1
            self.callbacks.register(CallbackType.ComputedStep, self._verif_callback)

    # -- overridden hooks of Solver
    def _check_terminate(self, iterate, iteration, timer):
        # runaway guard: the loop top was passed far more often than the iteration limit allows
        self._ntops = getattr(self, "_ntops", 0) + 1
        lim = self.params.iteration_limit
        if lim is not None and self._ntops > lim + 40:
            raise RunawayLoop("loop top reached %d times with iteration_limit=%d" % (self._ntops, lim))
        status = super()._check_terminate(iterate, iteration, timer)
        name = "none" if status is None else status.name
        obs = {"opt": False, "infeas": False, "unb": False}
        if name not in ("IterationLimit", "TimeLimit"):
            obs = self._verif_obs(iterate)
        self.rec.emit("CheckTerminate", iter=int(iteration), cur=self.rec.pid(iterate), status=name, obs=obs)
        return status

    def _verif_obs(self, iterate):
        p = self.params
        return {
            "opt": bool(iterate.total_res <= p.opt_tol),
            "infeas": bool(iterate.locally_infeasible(p.opt_tol, p.local_infeas_tol)),
            "unb": bool((iterate.obj <= p.obj_lower_limit) and iterate.is_feasible(p.opt_tol)),
        }

    def _compute_step(self, controller, iterate, rho, dt, display, timer):
        rec = self.rec
        # runaway guard (see _check_terminate): far more trial computations than the iteration limit allows
        self._ntrials = getattr(self, "_ntrials", 0) + 1
        lim = self.params.iteration_limit
        if lim is not None and self._ntrials > lim + 40:
            raise RunawayLoop("%d trial steps computed with iteration_limit=%d" % (self._ntrials, lim))
        lamb_used = 1.0 / dt
        rec.emit("TrialBegin", **{"from": rec.pid(iterate)}, rhoUsed=F("RHO", rho), dt=F("DT", dt),
                 lambUsed=F("LAMB", lamb_used), disp=bool(display))
        self._step_raised = "none"
        self._trial_ctx = (iterate, rho, dt)
        try:
            res = super()._compute_step(controller, iterate, rho, dt, display, timer)
        except BaseException:
            self._pending_trial = True
            raise
        nxt = res.iterate
        accepted = bool(res.accepted)
        # fail_result() hands back the very same iterate object; a rejection carries a new one
        failed = (not accepted) and (self._step_raised != "none" or (nxt is iterate and res.active_set is None))
        kind = "accept" if accepted else ("fail" if failed else "reject")
        lb = self.problem.var_lb
        ub = self.problem.var_ub
        inbox = bool((nxt.x >= lb).all() and (nxt.x <= ub).all())
        res_class = "na"
        if accepted and self.params.step_control_type == StepControlType.Exact:
            res_class = self._verif_resclass(iterate, nxt, rho, dt)
        rec.emit("TrialEnd", kind=kind, pt=rec.pid(nxt), ptx=rec.xid(nxt.x), accepted=accepted,
                 lambNext=F("LAMB", res.lamb), inbox=inbox, resClass=res_class, stepRaised=self._step_raised)
        return res

    def _verif_resclass(self, it0, it1, rho, dt):
        from harness import oracle

        ip = oracle.Internal(_unwrap(self.user_problem), self.transform.scaling)
        r = oracle.implicit_euler_residual(ip, it0.x, it0.y, it1.x, it1.y, rho, dt)
        n = it1.x.size
        tol = self.params.newton_tol * (1.0 + 1e-6) + np.sqrt(n) * 1e-8
        return "le" if r <= tol else "gt"

    def _verif_callback(self, iterate, next_iterate, accept):
        rec = self.rec
        lb = self.problem.var_lb
        ub = self.problem.var_ub

        def inb(it):
            x = np.asarray(it.x)
            return bool(x.shape == lb.shape and (x >= lb).all() and (x <= ub).all())

        # the event carries the run of the solver this observer was registered on (not the run that happens to be active): an
        # observer that hears the steps of another solver shows up as a Notify of a finished / foreign run
        rec.emit("Notify", **{"from": rec.pid(iterate)}, to=rec.pid(next_iterate), accept=bool(accept),
                 fromInbox=inb(iterate), toInbox=inb(next_iterate), solverRho=F("RHO", self.rho), run=self._run)

    # -- recording substitutes
    def _make_penalty(self, orig):
        solver = self

        def factory(problem, params):
            strat = orig(problem, params)
            o_init = strat.initial
            o_upd = strat.update

            def _verif_penalty_initial(iterate):
                rho = o_init(iterate)
                solver.rec.emit("InitRho", rho=F("RHO", rho))
                return rho

            def _verif_penalty_update(prev, nxt):
                rec = solver.rec
                before = getattr(strat, "rho", params.rho)
                fb = [tuple(e) for e in getattr(strat, "entries", [])]
                entry = None
                if hasattr(strat, "iterate_entry"):
                    try:
                        entry = tuple(float(v) for v in strat.iterate_entry(nxt))
                    except Exception:
                        entry = None
                out = o_upd(prev, nxt)
                after = getattr(strat, "rho", params.rho)
                fa = [tuple(e) for e in getattr(strat, "entries", [])]
                y = np.asarray(nxt.y)
                ynorm = float(np.max(np.abs(y))) if y.size else 0.0
                rec.emit(
                    "PenaltyUpdate",
                    prhoBefore=F("RHO", before), prhoAfter=F("RHO", after), nextRho=F("RHO", out.next_rho),
                    ok=bool(out.accept), ynorm=F("RHO", ynorm),
                    entry=[F("FA", entry[0]), F("FB", entry[1])] if entry else [F("FA", 0.0), F("FB", 0.0)],
                    filtBefore=[[F("FA", a), F("FB", b)] for (a, b) in fb],
                    filtAfter=[[F("FA", a), F("FB", b)] for (a, b) in fa],
                )
                return out

            strat.initial = _verif_penalty_initial
            strat.update = _verif_penalty_update
            return strat

        return factory

    def _make_controller(self, orig):
        solver = self

        def factory(problem, params):
            ctl = orig(problem, params)
            o_step = ctl.step

            def step(iterate, rho, dt, display, timer):
                try:
                    return o_step(iterate, rho, dt, display, timer)
                except StepSolverError:
                    solver._step_raised = "StepSolverError"
                    raise
                except EvalError:
                    solver._step_raised = "EvalError"
                    raise

            ctl.step = step
            return ctl

        return factory

    def _make_display(self, orig):
        solver = self

        def factory(problem, params):
            disp = orig(problem, params)
            o_should = disp.should_display
            o_row = disp.row

            def should_display():
                d = o_should()
                solver.rec.emit("ShouldDisplay", disp=bool(d))
                return d

            def row(state):
                raised = "none"
                try:
                    return o_row(state)
                except Exception as e:  # noqa
                    raised = type(e).__name__
                    raise
                finally:
                    solver.rec.emit("Row", raised=raised)

            disp.should_display = should_display
            disp.row = row
            return disp

        return factory

    def _make_newton(self, orig):
        solver = self

        def factory(problem, params, iterate, dt, rho, tau=None):
            meth = orig(problem, params, iterate, dt, rho, tau)
            o_step = meth.step
            k = [0]

            def step(it):
                raised = "none"
                try:
                    return o_step(it)
                except Exception as e:  # noqa
                    raised = type(e).__name__
                    raise
                finally:
                    ctx = getattr(solver, "_trial_ctx", None)
                    # the Newton system of a trial is built for exactly the step size / penalty of that trial
                    same = bool(ctx is None or (float(dt) == float(ctx[2]) and float(rho) == float(ctx[1])))
                    solver.rec.emit("NewtonStep", k=k[0], raised=raised, trialArgs=same)
                    k[0] += 1

            meth.step = step
            return meth

        return factory

    def _make_linsolver(self, orig):
        solver = self

        def factory(mat, solver_type, symmetric=False):
            rec = solver.rec
            fault = solver.lin_fault
            phase = "rcond" if _in_rcond() else "trial"
            idx = solver._nlin
            solver._nlin += 1
            try:
                if fault is not None and fault("factor", idx):
                    raise LinearSolverError("injected factorisation failure")
                ls = orig(mat, solver_type, symmetric=symmetric)
            except Exception as e:  # noqa
                rec.emit("Lin", op="factor", raised=type(e).__name__, finite=True, resOK=True, phase=phase)
                raise
            rec.emit("Lin", op="factor", raised="none", finite=True, resOK=True, phase=phase)
            o_solve = ls.solve
            judge = {"cond": None}

            def res_ok(rhs, sol, a, kw):
                # independent residual class of a returned solve; judged only for small double-precision systems of moderate
                # condition number (the hypothesis of C17), with a threshold far above every solver's stated tolerance
                try:
                    if mat.shape[0] > 40 or np.asarray(sol).dtype != np.float64 or np.asarray(rhs).dtype != np.float64:
                        return True
                    dense = np.asarray(mat.toarray() if hasattr(mat, "toarray") else mat, dtype=float)
                    # GMRES claims convergence in terms of the residual itself: judged whatever the conditioning
                    if getattr(solver_type, "name", "") != "GMRES":
                        judge["cond"] = float(np.linalg.cond(dense)) if dense.size else 1.0     # the matrix object may be updated in place
                        # "moderate condition number": 1e6 for the direct solver, 1e4 for MINRES (scipy's MINRES stops early
                        # with its least-squares exit and info = 0 on badly scaled systems of condition ~1e6: outside C17's class)
                        if not (judge["cond"] <= (1e4 if getattr(solver_type, "name", "") == "MINRES" else 1e6)):
                            return True
                    trans = bool(kw.get("trans", a[0] if a else False))
                    M = dense.T if trans else dense
                    b = np.asarray(rhs, dtype=float)
                    x = np.asarray(sol, dtype=float)
                    r = M @ x - b
                    if getattr(solver_type, "name", "") == "MINRES":
                        # MINRES states its tolerance as a backward error: |r| <= rtol (|A| |x| + |b|); judged at 1e-3
                        return bool(np.linalg.norm(r) <= 1e-3 * (np.linalg.norm(M, 2) * np.linalg.norm(x) + np.linalg.norm(b)) + 1e-9)
                    return bool(np.abs(r).max(initial=0.0) <= 5e-3 * np.abs(b).max(initial=0.0) + 1e-7)
                except Exception:  # noqa: never let the oracle disturb the run
                    return True

            def solve(rhs, *a, **kw):
                ph = "rcond" if _in_rcond() else "trial"
                i = solver._nlin
                solver._nlin += 1
                try:
                    if fault is not None and fault("solve", i):
                        raise LinearSolverError("injected solve failure")
                    sol = o_solve(rhs, *a, **kw)
                except Exception as e:  # noqa
                    rec.emit("Lin", op="solve", raised=type(e).__name__, finite=True, resOK=True, phase=ph)
                    raise
                fin = bool(np.isfinite(sol).all())
                rec.emit("Lin", op="solve", raised="none", finite=fin, resOK=(res_ok(rhs, sol, a, kw) if fin else True), phase=ph)
                return sol

            ls.solve = solve
            return ls

        return factory

    lin_fault = None

    @contextlib.contextmanager
    def _patched(self):
        saved = (
            _solver_mod.penalty_strategy, _solver_mod.step_controller, _solver_mod.solver_display,
            _nc_mod.newton_method, _ls_pkg.linear_solver, _timer_mod.time,
        )
        if any(getattr(s, "_verif_wrapped", False) for s in saved[:5]):
            raise MachineryError("nested recording")
        self._nlin = 0
        self.clock = VirtualClock(self.rec, self._clock_tick, self._clock_schedule)
        try:
            _solver_mod.penalty_strategy = self._make_penalty(saved[0])
            _solver_mod.step_controller = self._make_controller(saved[1])
            _solver_mod.solver_display = self._make_display(saved[2])
            _nc_mod.newton_method = self._make_newton(saved[3])
            _ls_pkg.linear_solver = self._make_linsolver(saved[4])
            _timer_mod.time = self.clock
            for f in (_solver_mod.penalty_strategy, _solver_mod.step_controller, _solver_mod.solver_display,
                      _nc_mod.newton_method, _ls_pkg.linear_solver):
                f._verif_wrapped = True
            yield
        finally:
            (_solver_mod.penalty_strategy, _solver_mod.step_controller, _solver_mod.solver_display,
             _nc_mod.newton_method, _ls_pkg.linear_solver, _timer_mod.time) = saved

    def config_event(self, x0, y0):
        p = self.params
        import logging

        from pygradflow.log import logger
        from pygradflow.params import DerivCheck

        if p.display_interval is None:
            display = "always"
        elif p.display_interval >= 1e6:
            display = "never"
        else:
            display = "clock"
        return dict(
            ctl=_CTL.get(p.step_control_type, "Other"), newton=p.newton_type.name, pen=_PEN[p.penalty_update],
            stepSolver=p.step_solver_type.name, linSolver=p.linear_solver_type.name,
            limit=-1 if p.iteration_limit is None else int(p.iteration_limit),
            timeLimit=float(p.time_limit),
            lambInit=F("LAMB", p.lamb_init), lambMin=F("LAMB", p.lamb_min), lambMax=F("LAMB", p.lamb_max),
            lambInc=float(p.lamb_inc), lambRed=float(p.lamb_red),
            rho0=F("RHO", p.rho), zero=F("RHO", 0.0),
            collectPath=bool(p.collect_path), ncb=self._ncb, display=display,
            debug=bool(logger.getEffectiveLevel() <= logging.DEBUG), rcond=bool(p.report_rcond),
            m0=bool(self.problem.num_cons == 0), derivCheck=bool(p.deriv_check != DerivCheck.NoCheck),
            algKey=self._algkey, twin=self._twin, obj=self._obj_id, wellposed=bool(getattr(self, "_wellposed", False)), startUndef=bool(getattr(self, "_start_undef", False)), validate=bool(p.validate_input),
        )

    def solve(self, x0=None, y0=None):
        from harness import oracle

        rec = self.rec
        rec.run = self._run
        up = self.user_problem
        if isinstance(up, RecordingProblem):
            up.rec = rec
            for (nm, o) in (("x0", x0), ("y0", y0)):
                if isinstance(o, np.ndarray) and not any(oo is o for (_, oo, _) in up.owned):
                    up.own(nm, o)
        start = oracle.transform_start(_unwrap(up), self.transform.scaling, self.params, x0, y0)
        cfg = self.config_event(x0, y0)
        cfg["start"] = rec.pts.intern(zkey(start[0], start[1]), (start[0], start[1]))
        rec.emit("NewSolve", **cfg)
        rec.meta[self._run] = dict(problem=_unwrap(up), scaling=self.transform.scaling, params=self.params)
        self._pending_trial = False
        self._ntops = 0
        self._ntrials = 0
        with self._patched():
            try:
                result = super().solve(x0, y0)
            except Exception as e:  # noqa
                kind = classify_raise(e)
                changed = up.changed() if isinstance(up, RecordingProblem) else []
                rec.emit("Raise", kind=kind if not kind.startswith("Internal") else "Internal",
                         type=type(e).__name__, frame=innermost_frame(e), message=str(e)[:200], changed=changed)
                raise
        self._verif_result(result, up)
        return result

    def _verif_result(self, result, up):
        rec = self.rec
        changed = up.changed() if isinstance(up, RecordingProblem) else []
        x = np.asarray(result.x)
        y = np.asarray(result.y)
        d = np.asarray(result.d)
        path = None
        mtimes = None
        if result.path is not None:
            path = np.asarray(result.path)
            mtimes = np.asarray(result.model_times)
        rec.emit(
            "Return", status=result.status.name, iterations=int(result.iterations),
            accepted=int(result.num_accepted_steps), x=rec.uid(x), y=rec.uid(y), d=rec.uid(d),
            finite=bool(np.isfinite(x).all() and np.isfinite(y).all() and np.isfinite(d).all()),
            changed=changed, distFactor=float(result.dist_factor),
            _x=x, _y=y, _d=d, _path=path, _mtimes=mtimes,
        )


def _in_rcond():
    f = sys._getframe(2)
    n = 0
    while f is not None and n < 10:
        if f.f_code.co_name in ("estimate_rcond",):
            return True
        f = f.f_back
        n += 1
    return False


def _unwrap(p):
    return p.inner if isinstance(p, RecordingProblem) else p
