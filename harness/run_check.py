import importlib
import json
import sys
import traceback


def main():
    pid = sys.argv[1]
    try:
        mod = importlib.import_module("harness.checks." + pid)
    except Exception:
        traceback.print_exc()
        print("MACHINERY-FAILURE: cannot import check " + pid)
        return 2
    if "--replay" in sys.argv:
        path = sys.argv[sys.argv.index("--replay") + 1]
        return replay(pid, path)
    try:
        return mod.main()
    except Exception:
        traceback.print_exc()
        print("MACHINERY-FAILURE: check crashed")
        return 2


def replay(pid, path):
    from harness.checklib import Check

    data = json.load(open(path))
    chk = Check(pid)
    if data.get("group"):
        chk.tv([data["group"]], label="replay")
    else:
        print("replay file has no trace group; kernel case: " + json.dumps(data.get("detail"))[:1000])
    return chk.finish(rule="replay of " + path)


if __name__ == "__main__":
    sys.exit(main())
