"""C16 the penalty parameter is positive and never decreases."""
import numpy as np

from harness.checklib import Check
from harness.checks.common import family_spec
from harness import gen


def groups(n, seed):
    rng = np.random.default_rng(seed)
    gs = []
    for i in range(n):
        pk = gen.random_params(rng, iteration_limit=50, penalty_update=gen.PENS[i % 6],
                               rho=float(10.0 ** rng.integers(-8, 1)))
        ps = family_spec(i * 7 + 1, rng)
        rs = {"prob": ps, "params": pk}
        if i % 2:
            rs["y0scale"] = float(10.0 ** rng.integers(-8, 9))
        gs.append({"tag": "C16", "runs": [rs]})
    return gs


def main():
    chk = Check("C16")
    chk.mc("GF_small.cfg" if chk.thorough else "GF_q_small.cfg")
    chk.tv(groups(900 if chk.thorough else 96, chk.seed), "C16 sweep")
    return chk.finish(rule="MC over all policies x ynorm levels x filter histories + traced solves with all six policies and "
                           "starting multipliers spanning 1e-8..1e8")
