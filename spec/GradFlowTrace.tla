--------------------------- MODULE GradFlowTrace ---------------------------
(***************************************************************************)
(* Trace validation: recorded executions of the real Solver.solve are      *)
(* replayed through the actions of GradFlow, one event per line.  Commit   *)
(* is never logged; it is composed in as a silent step when the next       *)
(* logged event is the loop top.  A file holds many groups (tid); a Reset  *)
(* event separates them.  Failing clauses are collected in TLC register 1, *)
(* the last consumed line in register 2.                                   *)
(***************************************************************************)
EXTENDS GradFlow, Json, IOUtils, TLCExt

Tr == ndJsonDeserialize(IOEnv.GF_TRACE)
TraceTabs(c) == Tr[c.line].tabs

IsEv(n) == pos <= Len(Tr) /\ Tr[pos].ev = n /\ TLCSet(2, pos)
E == Tr[pos]

TraceInit == TLCSet(1, <<>>) /\ TLCSet(2, 0) /\ Init

TReset ==
  /\ IsEv("Reset")
  /\ pos' = pos + 1
  /\ pc' = [r \in Runs |-> "Idle"] /\ cfg' = [r \in Runs |-> NoCfg]
  /\ cur' = [r \in Runs |-> NoPt] /\ lamb' = [r \in Runs |-> -1]
  /\ rho' = [r \in Runs |-> NoRho] /\ prho' = [r \in Runs |-> NoRho]
  /\ filt' = [r \in Runs |-> {}] /\ iter' = [r \in Runs |-> 0] /\ nacc' = [r \in Runs |-> 0]
  /\ nnot' = [r \in Runs |-> 0] /\ ymax' = [r \in Runs |-> 0]
  /\ trial' = [r \in Runs |-> NoTrial] /\ inner' = [r \in Runs |-> InnerInit]
  /\ post' = [r \in Runs |-> PostInit] /\ pen' = [r \in Runs |-> NoPen]
  /\ hist' = [r \in Runs |-> <<>>] /\ path' = [r \in Runs |-> <<>>] /\ ptime' = [r \in Runs |-> <<>>]
  /\ status' = [r \in Runs |-> "none"] /\ err' = [r \in Runs |-> "none"]
  /\ result' = [r \in Runs |-> NoResult] /\ bad' = [r \in Runs |-> {}]
  /\ clk' = [r \in Runs |-> ClkInit] /\ disp' = [r \in Runs |-> FALSE] /\ dlx' = [r \in Runs |-> FALSE]
  /\ orc' = <<>> /\ viol' = {}

TCommit ==
  /\ pos <= Len(Tr)
  /\ \/ E.ev = "CheckTerminate"
     \/ (E.ev = "Clock" /\ E.site = "terminate")
  /\ pc[E.run] = "Post"
  /\ Commit(E.run)

TraceNext ==
  \/ TReset
  \/ TCommit
  \/ IsEv("NewSolve") /\ NewSolve(E.run, E)
  \/ IsEv("Eval") /\ Eval(E.run, E)
  \/ IsEv("Clock") /\ ~(E.site = "terminate" /\ pc[E.run] = "Post") /\ Clock(E.run, E)
  \/ IsEv("InitRho") /\ InitRho(E.run, E)
  \/ IsEv("CheckTerminate") /\ pc[E.run] # "Post" /\ CheckTerminate(E.run, E)
  \/ IsEv("ShouldDisplay") /\ ShouldDisplay(E.run, E)
  \/ IsEv("TrialBegin") /\ TrialBegin(E.run, E)
  \/ IsEv("NewtonStep") /\ NewtonStep(E.run, E)
  \/ IsEv("Lin") /\ Lin(E.run, E)
  \/ IsEv("TrialEnd") /\ TrialEnd(E.run, E)
  \/ IsEv("Notify") /\ Notify(E.run, E)
  \/ IsEv("Row") /\ Row(E.run, E)
  \/ IsEv("PenaltyUpdate") /\ PenaltyUpdate(E.run, E)
  \/ IsEv("Return") /\ Return(E.run, E)
  \/ IsEv("Raise") /\ Raise(E.run, E)

TraceSpec == TraceInit /\ [][TraceNext]_vars

NoteInv(ok, n, t) == IF ok THEN TRUE ELSE Note(t, n)
TraceInvs ==
  /\ NoteInv(C02_IterBound, "inv.C02_IterBound", "P:C02")
  /\ NoteInv(C02_IterLimitIff, "inv.C02_IterLimitIff", "P:C02")
  /\ NoteInv(C02_TimeLimitAfterDeadline, "inv.C02_TimeLimitAfterDeadline", "P:C02")
  /\ NoteInv(C12_CountersConsistent, "inv.C12_CountersConsistent", "P:C12")
  /\ NoteInv(C12_CurIsLastCommitted, "inv.C12_CurIsLastCommitted", "P:C12")
  /\ NoteInv(C15_NoTrialAtLambMax, "inv.C15_NoTrialAtLambMax", "P:C15")
  /\ NoteInv(C16_RhoPositive, "inv.C16_RhoPositive", "P:C16")
  /\ NoteInv(C16_ConstantUnchanged, "inv.C16_ConstantUnchanged", "P:C16")
  /\ NoteInv(C18_Antichain, "inv.C18_Antichain", "P:C18")
  /\ NoteInv(C08_NoLeak, "inv.C08_NoLeak", "P:C08")

TraceDone ==
  /\ PrintT(<<"GFLAST", TLCGet(2), Len(Tr)>>)
  /\ PrintT(<<"GFNOTES", TLCGet(1)>>)
=============================================================================
