"""C16 the penalty parameter is positive and never decreases."""
import numpy as np

from harness.checklib import Check
from harness.checks.common import family_spec
from harness import gen


def groups(n, seed):
    rng = np.random.default_rng(seed)
    gs = []
    for i in range(n):
        pk = gen.random_params(rng, iteration_limit=50, penalty_update=gen.PENS[i % 6],
                               rho=float(10.0 ** rng.integers(-8, 1)))
        ps = family_spec(i * 7 + 1, rng)
        rs = {"prob": ps, "params": pk}
        if i % 7 == 3:
            # single precision with the default (tiny) penalty; only the repository's own instances (bounds representable in float32)
            from pygradflow.params import Precision
            pk["precision"] = Precision.Single
            pk["rho"] = 1e-8
            rs["prob"] = ("repo", ["hs71", "hs71c", "tame"][(i // 7) % 3])
        elif i % 11 == 5:
            pk["rho"] = float(10.0 ** -int(rng.integers(16, 20)))      # far below machine epsilon
        if i % 2:
            rs["y0scale"] = float(10.0 ** rng.integers(-8, 9))
        gs.append({"tag": "C16", "runs": [rs]})
    # several multipliers of equal magnitude (2-norm well above the inf-norm) x initial rho swept over decades:
    # the dual-norm bound is tight here
    for i in range(max(24, n // 3)):
        pk = dict(penalty_update=gen.PENS[1], rho=float(10.0 ** rng.uniform(-7, 0)), iteration_limit=60, display_interval=1e9,
                  step_control_type=gen.CTLS[i % 4])
        gs.append({"tag": "C16.equalmult", "runs": [{"prob": ("equalmult", int(rng.integers(0, 2 ** 31)), int(rng.integers(3, 8))), "params": pk}]})
    # dual-norm policy started from penalties far below 1e-8 (absolute tolerances of float comparisons live there): the
    # penalty *used* by the trials must follow the policy step by step
    for i in range(max(6, n // 16)):
        pk = dict(penalty_update=gen.PENS[1], rho=float(10.0 ** -[10, 12, 9, 15][i % 4]), iteration_limit=40, display_interval=1e9,
                  step_control_type=gen.CTLS[(i // 2) % 4])
        ps = ("repo", ["hs71c", "tame", "hs71"][i % 3]) if i % 2 == 0 else family_spec(5 * i + 2, rng)
        gs.append({"tag": "C16.tinyrho", "runs": [{"prob": ps, "params": pk, "y0scale": [None, 1.0, 100.0][i % 3]}]})
    # evaluation faults at trial points during the dual-norm ramp-up: a discarded trial must not move the policy
    for i in range(max(10, n // 8)):
        pk = dict(penalty_update=gen.PENS[1], rho=1e-8, iteration_limit=40, display_interval=1e9, step_control_type=gen.CTLS[i % 4])
        ps = ("repo", ["tame", "hs71c", "hs71"][i % 3])
        gs.append({"tag": "C16.faults", "runs": [{"prob": ps, "params": pk, "y0scale": [None, 10.0][i % 2],
                                                  "fault": ("transient", ["obj", "cons", None][i % 3], int(rng.integers(3, 60)), "nan")}]})
    return gs


def main():
    chk = Check("C16")
    chk.mc("GF_small.cfg" if chk.thorough else "GF_q_small.cfg")
    chk.tv(groups(900 if chk.thorough else 96, chk.seed), "C16 sweep")
    chk.replay_behaviours(num=500 if not chk.thorough else 6000)
    return chk.finish(rule="MC over all policies x ynorm levels x filter histories + traced solves with all six policies and "
                           "starting multipliers spanning 1e-8..1e8")
