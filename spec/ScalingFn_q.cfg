SPECIFICATION Spec
CONSTANTS
  Vals = {0, 2, 3, 12, 24, 40, 1280}
  JVals = {0, 3, 16, 40}
  KVals = {0, 3, 16, 40}
INVARIANT C20_Nominal
INVARIANT C20_GradJac
INVARIANT C20_KKT
INVARIANT C20_KKTTerminates
CHECK_DEADLOCK FALSE
