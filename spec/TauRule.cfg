SPECIFICATION Spec
CONSTANTS
  Xs <- X2
  Gs <- G2
  Lbs <- L2
  Ubs <- U2
INVARIANT C06_SmallestPositive
INVARIANT C06_LargestAtLeastOne
INVARIANT C06_SmallestBelowEveryBreakPoint
INVARIANT C06_LargestCoversEveryBreakPoint
CHECK_DEADLOCK FALSE
