SPECIFICATION Spec
CONSTANTS
  K = 4
  MaxLev = 2
INVARIANT C18_Antichain
INVARIANT C18_InsertIff
INVARIANT C18_RemovesExactlyDominated
INVARIANT C18_RefusedKeeps
INVARIANT C18_VetoRaises
INVARIANT C18_AcceptKeepsLevel
PROPERTY C18_Monotone
CHECK_DEADLOCK FALSE
