"""C10 a solve is a deterministic function of its inputs, independent of history."""
import numpy as np

from harness.checklib import Check
from harness import gen
from harness.checks.common import family_spec


def groups(n, seed):
    rng = np.random.default_rng(seed)
    gs = []
    for i in range(n):
        ps = family_spec(i, rng)
        pk = gen.random_params(rng, iteration_limit=18, penalty_update=gen.PENS[i % 6], step_control_type=gen.CTLS[(i // 6) % 4])
        hist = i % 4
        first = {"prob": ps, "params": pk, "run": "A", "algkey": 1, "twin": "C10"}
        if hist == 0:
            first["x0_shift"] = 0.25                      # a different start, different outcome
            if i % 8 == 0:
                # inequality / ranged rows that are strictly satisfied at both starts: the slack part of the start differs too
                ps = ("convex_qp", int(rng.integers(0, 2 ** 31)), int(rng.integers(3, 6)), 2,
                      {"row_kinds": [["ranged", "lower"], ["upper", "eq"], ["ranged", "ranged"]][(i // 8) % 3], "fmt": ("coo", "csr", "csc")[(i // 8) % 3]})
                first["prob"] = ps
        elif hist == 1:
            first["fault"] = ("transient", None, int(rng.integers(6, 60)), "nan")   # an aborted / disturbed solve
            first["twin"] = "none"
        elif hist == 2:
            first["lin_fault"] = ("lin", None, int(rng.integers(0, 12)))
            first["twin"] = "none"
        if hist == 3 and i % 8 == 3:
            # two solvers sharing ONE Params object; the first one is built for a different (unconstrained) problem
            other = ("repo", "rosenbrock") if i % 16 == 3 else ("convex_qp", int(rng.integers(0, 2 ** 31)), 3, 0, {})
            gs.append({"tag": "C10.sharedparams", "runs": [
                {"prob": other, "params": pk, "run": "A", "algkey": 1, "twin": "none"},
                {"prob": ps, "params": pk, "run": "B", "algkey": 2, "twin": "C10", "share_params_with": "A"},
                {"prob": ps, "params": pk, "run": "C", "algkey": 2, "twin": "C10"}]})
            continue
        if hist == 3 and i % 8 == 7:
            # two solvers built on ONE problem object with automatic scalings computed at different points
            from pygradflow.params import ScalingType
            st = [ScalingType.GradJac, ScalingType.KKT, ScalingType.Nominal][(i // 8) % 3]
            pks = dict(pk, scaling_type=st)
            psx = ps if ps[0] not in ("infeasible", "unbounded") else ("repo", "hs71")
            gs.append({"tag": "C10.sameproblem", "runs": [
                {"prob": psx, "params": pks, "run": "A", "algkey": 1, "twin": "none", "scaling_point_shift": 0.75},
                {"prob": psx, "params": pks, "run": "B", "algkey": 2, "twin": "C10", "same_problem_as": "A"},
                {"prob": psx, "params": pks, "run": "C", "algkey": 2, "twin": "C10"}]})
            continue
        runs = [first,
                {"prob": ps, "params": pk, "run": "B", "algkey": 2, "twin": "C10", "same_solver_as": "A"},
                {"prob": ps, "params": pk, "run": "C", "algkey": 2, "twin": "C10"},
                {"prob": ps, "params": pk, "run": "D", "algkey": 2, "twin": "C10", "same_solver_as": "A"}]
        gs.append({"tag": "C10", "runs": runs})
    # two solvers built one after the other on ONE problem object, no scaling, equality rows with a right-hand side
    for i in range(max(3, n // 12)):
        ps = ("convex_qp", int(rng.integers(0, 2 ** 31)), int(rng.integers(3, 6)), 2,
              {"row_kinds": [["eq", "lower"], ["eq", "eq0"], ["ranged", "eq"]][i % 3], "fmt": ("coo", "csr", "csc")[i % 3]})
        pk = gen.random_params(rng, iteration_limit=18)
        gs.append({"tag": "C10.sameproblem.unscaled", "runs": [
            {"prob": ps, "params": pk, "run": "A", "algkey": 2, "twin": "C10"},
            {"prob": ps, "params": pk, "run": "B", "algkey": 2, "twin": "C10", "same_problem_as": "A"},
            {"prob": ps, "params": pk, "run": "C", "algkey": 2, "twin": "C10"}]})
    # omitted start vectors mean the defaults, whatever the solver object was given before
    for i in range(max(4, n // 10)):
        ps = family_spec(i, rng)
        if ps[0] in ("infeasible", "unbounded"):
            ps = ("repo", ["tame", "hs71c"][i % 2])
        pk = gen.random_params(rng, iteration_limit=15)
        om = ["both", "x", "y"][i % 3]
        gs.append({"tag": "C10.omitted", "runs": [
            {"prob": ps, "params": pk, "run": "A", "algkey": 1, "twin": "none", "x0_shift": 0.5, "y0scale": 2.0},
            {"prob": ps, "params": pk, "run": "B", "algkey": 2, "twin": "C10", "same_solver_as": "A", "omit_start": om},
            {"prob": ps, "params": pk, "run": "C", "algkey": 2, "twin": "C10", "omit_start": om}]})
    # process-global state: the reference solve R runs BEFORE a polluting solve A (a failed derivative check, a single-precision
    # solve, a solve at DEBUG level that raises midway), its twin B after it -- all on fresh solvers
    from pygradflow.params import DerivCheck, Precision
    for i in range(max(6, n // 6)):
        ps = ("logdomain", int(rng.integers(0, 2 ** 31)), int(rng.integers(1, 4)), bool(i % 2)) if i % 3 != 2 else family_spec(i, rng)
        pk = gen.random_params(rng, iteration_limit=18, lamb_init=float(10.0 ** rng.uniform(-3, -1)))
        kind = i % 3
        other = ("convex_qp", int(rng.integers(0, 2 ** 31)), 3, 1, {})
        if kind == 0:
            pol = {"prob": other, "params": dict(deriv_check=DerivCheck.CheckAll, iteration_limit=5, display_interval=1e9),
                   "fault": ("always", ["obj_grad", "cons_jac", "lag_hess"][(i // 3) % 3], "wrong")}
        elif kind == 1:
            pol = {"prob": ("repo", "hs71"), "params": dict(precision=Precision.Single, iteration_limit=8, display_interval=1e9)}
        else:
            pol = {"prob": other, "params": dict(iteration_limit=12, display_interval=None), "loglevel": "DEBUG",
                   "fault": ("transient", None, int(rng.integers(5, 40)), "nan")}
        gs.append({"tag": "C10.global", "runs": [
            {"prob": ps, "params": pk, "run": "A", "algkey": 2, "twin": "C10"},
            dict(pol, run="B", algkey=1, twin="none"),
            {"prob": ps, "params": pk, "run": "C", "algkey": 2, "twin": "C10"}]})
    return gs


def main():
    chk = Check("C10")
    chk.mc("GF_twin_hist.cfg" if chk.thorough else "GF_q_twin_hist.cfg")
    chk.tv(groups(500 if chk.thorough else 40, chk.seed), "C10 sequences")
    return chk.finish(rule="MC: first solve A (any outcome), second solve B on the same object, fresh solve C, shared oracle; TV: sequences "
                           "of real solves in one process (reused solver after a different / faulted / aborted solve vs fresh solver), all "
                           "penalty policies and controllers; compared by interned ids")
