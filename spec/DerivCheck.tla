----------------------------- MODULE DerivCheck -----------------------------
(***************************************************************************)
(* C19: decision logic of the derivative checker: the order of the checks  *)
(* in Solver._deriv_check (objective gradient, constraint Jacobian, then   *)
(* Lagrangian Hessian, each only if its flag is set) and the column loop   *)
(* of deriv_check (first wrong column raises, reporting exactly the wrong  *)
(* rows).  A case is a set of at most two wrong entries, each with a       *)
(* magnitude class: "above"/"aboveNeg" (off by more than the tolerance, up or *)
(* down: must be reported)                                                 *)
(* or "below" (far below the tolerance: must pass).  n = 2 variables,      *)
(* m = 2 constraints.  Final states are the expected outcomes, replayed    *)
(* through Solver.solve on problems with exactly those wrong entries.      *)
(***************************************************************************)
EXTENDS Integers, Sequences, FiniteSets

VARIABLES cs, si, col, verdict, work

Stages(fl) == CASE fl = "CheckFirst" -> <<"grad", "jac">> [] fl = "CheckSecond" -> <<"hess">>
                [] fl = "CheckAll" -> <<"grad", "jac", "hess">> [] OTHER -> <<>>
Rows(st) == IF st = "grad" THEN {1} ELSE {1, 2}
Entries == {[which |-> w, i |-> i, j |-> j, mag |-> mg] :
              w \in {"grad", "jac", "hess"}, i \in 1..2, j \in 1..2, mg \in {"above", "aboveNeg", "below"}}
WF(e) == e.i \in Rows(e.which)
ErrSets == {S \in SUBSET {e \in Entries : WF(e)} : Cardinality(S) <= 2 /\
              \A e, f \in S : (e.which = f.which /\ e.i = f.i /\ e.j = f.j) => e = f}
Flags == {"NoCheck", "CheckFirst", "CheckSecond", "CheckAll"}

Big(e) == e.mag \in {"above", "aboveNeg"}      \* wrong by more than the tolerance, in either direction
Wrong(c, st, k) == {e.i : e \in {f \in c.errs : f.which = st /\ f.j = k /\ Big(f)}}

V(k) == [kind |-> k, stage |-> "none", col |-> 0, rows |-> {}]
Init == /\ cs \in [flags : Flags, errs : ErrSets]
        /\ si = 1 /\ col = 1 /\ verdict = V("running") /\ work = 0
Step ==
  /\ verdict.kind = "running"
  /\ IF si > Len(Stages(cs.flags))
     THEN verdict' = V("pass") /\ UNCHANGED <<si, col, work>>
     ELSE LET st == Stages(cs.flags)[si] IN
          /\ work' = work + 1
          /\ IF Wrong(cs, st, col) # {}
             THEN verdict' = [kind |-> "error", stage |-> st, col |-> col, rows |-> Wrong(cs, st, col)] /\ UNCHANGED <<si, col>>
             ELSE /\ verdict' = V("running")
                  /\ IF col < 2 THEN col' = col + 1 /\ si' = si ELSE col' = 1 /\ si' = si + 1
  /\ UNCHANGED cs
Spec == Init /\ [][Step]_<<cs, si, col, verdict, work>>

Done == verdict.kind # "running"
Enabled(c) == {e \in c.errs : Big(e) /\ \E k \in 1..Len(Stages(c.flags)) : Stages(c.flags)[k] = e.which}
StageIdx(c, w) == CHOOSE k \in 1..Len(Stages(c.flags)) : Stages(c.flags)[k] = w
Before(c, e, f) == StageIdx(c, e.which) < StageIdx(c, f.which) \/ (e.which = f.which /\ e.j < f.j)

C19_CorrectPasses == Done => ((verdict.kind = "pass") <=> (Enabled(cs) = {}))
C19_Pinpoint == (Done /\ verdict.kind # "pass") =>
    /\ \E e \in Enabled(cs) : e.which = verdict.stage /\ e.j = verdict.col
    /\ \A f \in Enabled(cs) : ~Before(cs, f, [which |-> verdict.stage, j |-> verdict.col])
    /\ verdict.rows = {e.i : e \in {f \in Enabled(cs) : f.which = verdict.stage /\ f.j = verdict.col}}
C19_NoCheckNoWork == cs.flags = "NoCheck" => work = 0
C19_BelowToleranceIgnored == (Done /\ \A e \in cs.errs : e.mag = "below") => verdict.kind = "pass"
C19_Terminates == <>Done
=============================================================================
