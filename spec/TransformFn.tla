---------------------------- MODULE TransformFn ----------------------------
(***************************************************************************)
(* C04: the internal problem as an exact reformulation of the user's.      *)
(* The user problem is a small polynomial program                          *)
(*    f(x) = (q1 x1^2 + q2 x2^2)/2 + r x1 x2 + p.x                          *)
(*    c_i(x) = a_i.x + d_i x1^2 / 2,   l <= c(x) <= u,  lx <= x <= ux       *)
(* The internal problem is DEFINED here from the mathematics: the change   *)
(* of variables x~ = 2^vw x, c~ = 2^cw c, f~ = 2^ow f, multipliers         *)
(* y~ = 2^-(cw-ow) y, slack embedding c~(x~) - s = 0 (inequality rows) and *)
(* offset c~(x~) - l~ = 0 (equality rows).  Invariants tie the definitions *)
(* together inside the spec (exact central differences = chain rule, round *)
(* trips, start slack = clip, zero padding), so the exponents are proved,  *)
(* not copied.  Every quantity Q is the integer Q * 2^SC.  Each state is   *)
(* one case with the expected internal values, replayed bit-for-bit on     *)
(* Transformation / ScaledProblem / ConstrainedProblem / the evaluator.    *)
(***************************************************************************)
EXTENDS Integers, Sequences, FiniteSets

CONSTANTS Weights,    \* candidate integer weights
          Kinds,      \* row kinds
          Points,     \* user points <<x1, x2>>
          Mults,      \* user multipliers <<y1, y2>>
          Dats        \* data variants

VARIABLES c, out

SC == 8
Inf == 100000000
Z(v) == IF v = Inf THEN Inf ELSE IF v = -Inf THEN -Inf ELSE v * (2 ^ SC)
Mul2(v, k) == IF v = Inf \/ v = -Inf THEN v ELSE IF k >= 0 THEN v * (2 ^ k) ELSE v \div (2 ^ (-k))
ExactMul2(v, k) == v = Inf \/ v = -Inf \/ k >= 0 \/ v % (2 ^ (-k)) = 0
Clip(v, lo, hi) == IF v < lo THEN lo ELSE IF v > hi THEN hi ELSE v

Q(d)  == IF d = 1 THEN <<2, 4>> ELSE <<0, 4>>
R(d)  == IF d = 1 THEN 1 ELSE -2
P(d)  == IF d = 1 THEN <<-1, 3>> ELSE <<2, -2>>
A(d)  == IF d = 1 THEN <<<<1, -2>>, <<3, 1>>>> ELSE <<<<0, 1>>, <<-1, 2>>>>
DD(d) == IF d = 1 THEN <<2, 0>> ELSE <<0, -2>>
LX(d) == IF d = 1 THEN <<-4, -Inf>> ELSE <<-Inf, -6>>
UX(d) == IF d = 1 THEN <<4, 6>> ELSE <<Inf, 6>>

RowLo(k) == CASE k = "eq0" -> 0 [] k = "eq" -> 3 [] k = "lower" -> -1 [] k = "upper" -> -Inf [] k = "ranged" -> -2 [] k = "narrow" -> 1048576 [] OTHER -> -Inf
RowHi(k) == CASE k = "eq0" -> 0 [] k = "eq" -> 3 [] k = "lower" -> Inf [] k = "upper" -> 2 [] k = "ranged" -> 5 [] k = "narrow" -> 1048577 [] OTHER -> Inf
IsSlack(k) == RowLo(k) # RowHi(k)

(* ---- the user's functions (true integers) ---- *)
F(d, x)    == (Q(d)[1] * x[1] * x[1] + Q(d)[2] * x[2] * x[2]) \div 2 + R(d) * x[1] * x[2] + P(d)[1] * x[1] + P(d)[2] * x[2]
Gr(d, x)   == <<Q(d)[1] * x[1] + R(d) * x[2] + P(d)[1], Q(d)[2] * x[2] + R(d) * x[1] + P(d)[2]>>
Cn(d, x)   == [i \in 1..2 |-> A(d)[i][1] * x[1] + A(d)[i][2] * x[2] + (DD(d)[i] * x[1] * x[1]) \div 2]
Jc(d, x)   == [i \in 1..2 |-> <<A(d)[i][1] + DD(d)[i] * x[1], A(d)[i][2]>>]
Hs(d, x, y) == <<<<Q(d)[1] + y[1] * DD(d)[1] + y[2] * DD(d)[2], R(d)>>, <<R(d), Q(d)[2]>>>>
GL(d, x, y) == [i \in 1..2 |-> Gr(d, x)[i] + y[1] * Jc(d, x)[1][i] + y[2] * Jc(d, x)[2][i]]

(* ---- the internal problem, defined from the change of variables ---- *)
Slacks(cs) == SelectSeq(<<1, 2>>, LAMBDA i : IsSlack(cs.kinds[i]))
NS(cs) == Len(Slacks(cs))
CT(cs, x) == [i \in 1..2 |-> Mul2(Z(Cn(cs.dat, x)[i]), cs.cw[i])]            \* c~
LT(cs) == [i \in 1..2 |-> Mul2(Z(RowLo(cs.kinds[i])), cs.cw[i])]
UT(cs) == [i \in 1..2 |-> Mul2(Z(RowHi(cs.kinds[i])), cs.cw[i])]
StartSlack(cs) == [k \in 1..NS(cs) |-> Clip(CT(cs, cs.x)[Slacks(cs)[k]], LT(cs)[Slacks(cs)[k]], UT(cs)[Slacks(cs)[k]])]
XT(cs, x) == <<Mul2(Z(x[1]), cs.vw[1]), Mul2(Z(x[2]), cs.vw[2])>>
YT(cs) == [i \in 1..2 |-> Mul2(Z(cs.y[i]), -(cs.cw[i] - cs.ow))]

IntLb(cs) == <<Mul2(Z(LX(cs.dat)[1]), cs.vw[1]), Mul2(Z(LX(cs.dat)[2]), cs.vw[2])>> \o [k \in 1..NS(cs) |-> LT(cs)[Slacks(cs)[k]]]
IntUb(cs) == <<Mul2(Z(UX(cs.dat)[1]), cs.vw[1]), Mul2(Z(UX(cs.dat)[2]), cs.vw[2])>> \o [k \in 1..NS(cs) |-> UT(cs)[Slacks(cs)[k]]]
IntObj(cs, x) == Mul2(Z(F(cs.dat, x)), cs.ow)
IntGrad(cs, x) == <<Mul2(Z(Gr(cs.dat, x)[1]), cs.ow - cs.vw[1]), Mul2(Z(Gr(cs.dat, x)[2]), cs.ow - cs.vw[2])>> \o [k \in 1..NS(cs) |-> 0]
SlackIdx(cs, i) == CHOOSE k \in 1..NS(cs) : Slacks(cs)[k] = i
IntCons(cs, x, s) == [i \in 1..2 |-> IF IsSlack(cs.kinds[i]) THEN CT(cs, x)[i] - s[SlackIdx(cs, i)] ELSE CT(cs, x)[i] - LT(cs)[i]]
IntJac(cs, x) == [i \in 1..2 |-> <<Mul2(Z(Jc(cs.dat, x)[i][1]), cs.cw[i] - cs.vw[1]), Mul2(Z(Jc(cs.dat, x)[i][2]), cs.cw[i] - cs.vw[2])>>
                                 \o [k \in 1..NS(cs) |-> IF Slacks(cs)[k] = i THEN -Z(1) ELSE 0]]
IntHess(cs, x) == [i \in 1..(2 + NS(cs)) |-> [j \in 1..(2 + NS(cs)) |->
                     IF i <= 2 /\ j <= 2 THEN Mul2(Z(Hs(cs.dat, x, cs.y)[i][j]), cs.ow - cs.vw[i] - cs.vw[j]) ELSE 0]]

Out(cs) == [lb |-> IntLb(cs), ub |-> IntUb(cs), x0 |-> XT(cs, cs.x) \o StartSlack(cs), y0 |-> YT(cs),
            obj |-> IntObj(cs, cs.x), grad |-> IntGrad(cs, cs.x), cons |-> IntCons(cs, cs.x, StartSlack(cs)),
            jac |-> IntJac(cs, cs.x), hess |-> IntHess(cs, cs.x)]

Cases == [vw : Weights \X Weights, cw : Weights \X Weights, ow : Weights, kinds : Kinds \X Kinds,
          x : Points, y : Mults, dat : Dats]

Init == c \in Cases /\ out = Out(c)
Next == UNCHANGED <<c, out>>
Spec == Init /\ [][Next]_<<c, out>>

E(j) == IF j = 1 THEN <<1, 0>> ELSE <<0, 1>>
Plus(x, j) == <<x[1] + E(j)[1], x[2] + E(j)[2]>>
Minus(x, j) == <<x[1] - E(j)[1], x[2] - E(j)[2]>>

(* everything stays on the exactness domain (no truncating shift) *)
C04_Exact ==
  /\ \A j \in 1..2 : ExactMul2(Z(Gr(c.dat, c.x)[j]), c.ow - c.vw[j]) /\ ExactMul2(Z(c.x[j]), c.vw[j])
  /\ \A i \in 1..2 : ExactMul2(Z(Cn(c.dat, c.x)[i]), c.cw[i]) /\ ExactMul2(Z(c.y[i]), -(c.cw[i] - c.ow))
  /\ \A i \in 1..2, j \in 1..2 : ExactMul2(Z(Jc(c.dat, c.x)[i][j]), c.cw[i] - c.vw[j])
                               /\ ExactMul2(Z(Hs(c.dat, c.x, c.y)[i][j]), c.ow - c.vw[i] - c.vw[j])
(* chain rule: a step 2^vw_j in x~_j is a unit step in x_j; central differences are exact for quadratics *)
C04_ChainRuleGrad == \A j \in 1..2 :
   Mul2(out.grad[j], 1 + c.vw[j]) = IntObj(c, Plus(c.x, j)) - IntObj(c, Minus(c.x, j))
C04_ChainRuleJac == \A i \in 1..2, j \in 1..2 :
   Mul2(out.jac[i][j], 1 + c.vw[j]) = CT(c, Plus(c.x, j))[i] - CT(c, Minus(c.x, j))[i]
C04_ChainRuleHess == \A i \in 1..2, j \in 1..2 :
   Mul2(out.hess[i][j], 1 + c.vw[j]) =
      Mul2(Z(GL(c.dat, Plus(c.x, j), c.y)[i] - GL(c.dat, Minus(c.x, j), c.y)[i]), c.ow - c.vw[i])
(* the internal Lagrangian gradient is the scaled user Lagrangian gradient (multiplier rescaling) *)
C04_MultiplierRescale == \A j \in 1..2 :
   out.grad[j] * (2 ^ SC) + out.y0[1] * out.jac[1][j] + out.y0[2] * out.jac[2][j]
     = Mul2(Z(GL(c.dat, c.x, c.y)[j]), c.ow - c.vw[j]) * (2 ^ SC)
C04_RoundTrip == /\ \A j \in 1..2 : Mul2(out.x0[j], -c.vw[j]) = Z(c.x[j])
                 /\ \A i \in 1..2 : Mul2(out.y0[i], c.cw[i] - c.ow) = Z(c.y[i])
C04_StartSlackInBounds == \A k \in 1..NS(c) : out.lb[2 + k] <= out.x0[2 + k] /\ out.x0[2 + k] <= out.ub[2 + k]
(* internal residual = scaled residual of the user's problem: distance of c~ to [l~,u~] *)
C04_ResidualCorrespondence == \A i \in 1..2 :
   LET ct == CT(c, c.x)[i]
       dist == IF ct < LT(c)[i] THEN ct - LT(c)[i] ELSE IF ct > UT(c)[i] THEN ct - UT(c)[i] ELSE 0
   IN out.cons[i] = dist
C04_ZeroPadding == /\ \A k \in 1..NS(c) : out.grad[2 + k] = 0
                   /\ \A i \in 1..(2 + NS(c)), k \in 1..NS(c) : out.hess[i][2 + k] = 0 /\ out.hess[2 + k][i] = 0
                   /\ \A i \in 1..2, k \in 1..NS(c) : out.jac[i][2 + k] = (IF Slacks(c)[k] = i THEN -Z(1) ELSE 0)
=============================================================================
