--------------------------- MODULE LinSolveTrace ---------------------------
(* Validates recorded solver outcomes (one per line) against OutcomeOK.    *)
EXTENDS LinSolve, Json, IOUtils, TLCExt
Tr == ndJsonDeserialize(IOEnv.LS_TRACE)
VARIABLE i
vars == <<A, facts, i>>
TInit == TLCSet(1, <<>>) /\ TLCSet(2, 0) /\ i = 1 /\ A = <<>> /\ facts = 0
TNext == /\ i <= Len(Tr)
         /\ TLCSet(2, i)
         /\ IF OutcomeOK(Tr[i].c, Tr[i].o) THEN TRUE ELSE TLCSet(1, Append(TLCGet(1), <<i, "P:C17", "outcome">>))
         /\ i' = i + 1
         /\ UNCHANGED <<A, facts>>
TSpec == TInit /\ [][TNext]_vars
TDone == PrintT(<<"GFLAST", TLCGet(2), Len(Tr)>>) /\ PrintT(<<"GFNOTES", TLCGet(1)>>)
=============================================================================
