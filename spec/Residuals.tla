----------------------------- MODULE Residuals -----------------------------
(***************************************************************************)
(* C13: augmented Lagrangian, residuals, active sets and the implicit-     *)
(* Euler residual function with its generalised Jacobian, DEFINED from     *)
(* their mathematics in exact integer arithmetic on the polynomial         *)
(* problem                                                                 *)
(*    f(x) = (q1 x1^2 + q2 x2^2)/2 + r x1 x2 + p.x,                        *)
(*    c(x) = a.x + d x1^2/2 - b      (one constraint, c(x) = 0),           *)
(* with integer data, integer points, lamb = 1/dt in {1,2} and rho in      *)
(* {1,2}.  Invariants tie the definitions to one another (5-point          *)
(* stencils, exact for polynomials of degree <= 4), so they are            *)
(* definitions and not a second copy of the code.  Scales: values of the   *)
(* augmented Lagrangian are doubled (L2 = 2L), everything else is a true   *)
(* integer; the implicit function is scaled by lamb (FL = lamb * F).       *)
(***************************************************************************)
EXTENDS Integers, Sequences, FiniteSets

CONSTANTS Dats, Xs, Ys, Xhats, Lambs, Rhos, Boxes

VARIABLES c, out

Inf == 100000
Q(d)  == IF d = 1 THEN <<2, 4>> ELSE <<4, 2>>
R(d)  == IF d = 1 THEN 1 ELSE -1
P(d)  == IF d = 1 THEN <<-1, 3>> ELSE <<2, -2>>
A(d)  == IF d = 1 THEN <<1, -2>> ELSE <<-1, 2>>
D(d)  == IF d = 1 THEN 2 ELSE IF d = 2 THEN -2 ELSE 0
B(d)  == IF d = 1 THEN 1 ELSE -1

F2(d, x) == Q(d)[1] * x[1] * x[1] + Q(d)[2] * x[2] * x[2] + 2 * R(d) * x[1] * x[2] + 2 * P(d)[1] * x[1] + 2 * P(d)[2] * x[2]  \* 2 f
G(d, x)  == <<Q(d)[1] * x[1] + R(d) * x[2] + P(d)[1], Q(d)[2] * x[2] + R(d) * x[1] + P(d)[2]>>
C(d, x)  == A(d)[1] * x[1] + A(d)[2] * x[2] + (D(d) * x[1] * x[1]) \div 2 - B(d)
J(d, x)  == <<A(d)[1] + D(d) * x[1], A(d)[2]>>
H(d, m)  == <<<<Q(d)[1] + m * D(d), R(d)>>, <<R(d), Q(d)[2]>>>>          \* Hessian of f + m c

(* ---- augmented Lagrangian L = f + rho/2 c^2 + y c and its derivatives ---- *)
L2(d, x, y, rho)  == F2(d, x) + rho * C(d, x) * C(d, x) + 2 * y * C(d, x)
Lx(d, x, y, rho)  == [j \in 1..2 |-> G(d, x)[j] + J(d, x)[j] * (rho * C(d, x) + y)]
Lxx(d, x, y, rho) == [i \in 1..2 |-> [j \in 1..2 |-> H(d, y + rho * C(d, x))[i][j] + rho * J(d, x)[i] * J(d, x)[j]]]

Abs(v) == IF v < 0 THEN -v ELSE v
Max2(a, b) == IF a >= b THEN a ELSE b
Min2(a, b) == IF a <= b THEN a ELSE b
Clip(v, lo, hi) == IF v < lo THEN lo ELSE IF v > hi THEN hi ELSE v

(* ---- violations, activity, bound multipliers, stationarity ---- *)
ConsViol(d, x) == Abs(C(d, x))
BoundViol(bx, x) == Max2(Max2(Max2(bx.lb[1] - x[1], 0), Max2(bx.lb[2] - x[2], 0)),
                         Max2(Max2(x[1] - bx.ub[1], 0), Max2(x[2] - bx.ub[2], 0)))
AtLower(bx, x, j) == x[j] = bx.lb[j] /\ x[j] # bx.ub[j]
AtUpper(bx, x, j) == x[j] = bx.ub[j] /\ x[j] # bx.lb[j]
AtBoth(bx, x, j)  == x[j] = bx.lb[j] /\ x[j] = bx.ub[j]
RNeg(d, x, y) == [j \in 1..2 |-> -(G(d, x)[j] + J(d, x)[j] * y)]        \* -(grad f + J'y)
BoundsDual(d, bx, x, y) == [j \in 1..2 |->
    IF AtBoth(bx, x, j) THEN RNeg(d, x, y)[j]
    ELSE IF AtUpper(bx, x, j) THEN Max2(RNeg(d, x, y)[j], 0)
    ELSE IF AtLower(bx, x, j) THEN Min2(RNeg(d, x, y)[j], 0) ELSE 0]
StatRes(d, bx, x, y) == Max2(Abs(-RNeg(d, x, y)[1] + BoundsDual(d, bx, x, y)[1]), Abs(-RNeg(d, x, y)[2] + BoundsDual(d, bx, x, y)[2]))
(* locally infeasible: violated and -J'c in the normal cone of the box at x *)
InfeasRes(d, bx, x) == [j \in 1..2 |->
    LET g == J(d, x)[j] * C(d, x) IN
    IF AtLower(bx, x, j) THEN Min2(g, 0) ELSE IF AtUpper(bx, x, j) THEN Max2(g, 0) ELSE g]
LocallyInfeasible(d, bx, x) == ConsViol(d, x) > 0 /\ InfeasRes(d, bx, x) = <<0, 0>>

(* ---- implicit Euler function, scaled by lamb = 1/dt:                    ---- *)
(*   FL_x = lamb x - P_box-ish(lamb xhat - Lx),  FL_y = lamb (y - yhat) - c      *)
PL(cs, x, y) == [j \in 1..2 |-> cs.lamb * cs.xhat[j] - Lx(cs.dat, x, y, cs.rho)[j]]        \* lamb * p
ActiveAt(cs, x, y) == {j \in 1..2 : PL(cs, x, y)[j] < cs.lamb * cs.box.lb[j] \/ PL(cs, x, y)[j] > cs.lamb * cs.box.ub[j]}
Proj(cs, pl, As) == [j \in 1..2 |-> IF j \in As THEN Clip(pl[j], cs.lamb * cs.box.lb[j], cs.lamb * cs.box.ub[j]) ELSE pl[j]]
FLx(cs, x, y, As) == [j \in 1..2 |-> cs.lamb * x[j] - Proj(cs, PL(cs, x, y), As)[j]]
FLy(cs, x, y) == cs.lamb * (y - cs.yhat) - C(cs.dat, x)
(* lamb * generalised Jacobian for the active set As:
   rows of active components are lamb * unit rows, inactive rows lamb I + Lxx and J' *)
DL(cs, x, y, As) ==
  << [j \in 1..3 |-> IF 1 \in As THEN (IF j = 1 THEN cs.lamb ELSE 0)
                     ELSE IF j <= 2 THEN (IF j = 1 THEN cs.lamb ELSE 0) + Lxx(cs.dat, x, y, cs.rho)[1][j] ELSE J(cs.dat, x)[1]],
     [j \in 1..3 |-> IF 2 \in As THEN (IF j = 2 THEN cs.lamb ELSE 0)
                     ELSE IF j <= 2 THEN (IF j = 2 THEN cs.lamb ELSE 0) + Lxx(cs.dat, x, y, cs.rho)[2][j] ELSE J(cs.dat, x)[2]],
     <<-J(cs.dat, x)[1], -J(cs.dat, x)[2], cs.lamb>> >>

Out(cs) == [L2 |-> L2(cs.dat, cs.x, cs.y, cs.rho), Lx |-> Lx(cs.dat, cs.x, cs.y, cs.rho), Lxx |-> Lxx(cs.dat, cs.x, cs.y, cs.rho),
            cviol |-> ConsViol(cs.dat, cs.x), bviol |-> BoundViol(cs.box, cs.x),
            atLower |-> {j \in 1..2 : AtLower(cs.box, cs.x, j)}, atUpper |-> {j \in 1..2 : AtUpper(cs.box, cs.x, j)},
            atBoth |-> {j \in 1..2 : AtBoth(cs.box, cs.x, j)},
            d |-> BoundsDual(cs.dat, cs.box, cs.x, cs.y), stat |-> StatRes(cs.dat, cs.box, cs.x, cs.y),
            linf |-> LocallyInfeasible(cs.dat, cs.box, cs.x),
            act |-> ActiveAt(cs, cs.x, cs.y), FLx |-> FLx(cs, cs.x, cs.y, ActiveAt(cs, cs.x, cs.y)), FLy |-> FLy(cs, cs.x, cs.y),
            DL |-> [As \in SUBSET {1, 2} |-> DL(cs, cs.x, cs.y, As)],
            proj |-> Proj(cs, PL(cs, cs.x, cs.y), ActiveAt(cs, cs.x, cs.y))]

Cases == [dat : Dats, x : Xs, y : Ys, xhat : Xhats, yhat : {0, 1}, lamb : Lambs, rho : Rhos, box : Boxes]
Init == c \in Cases /\ out = Out(c)
Next == UNCHANGED <<c, out>>
Spec == Init /\ [][Next]_<<c, out>>

E(j) == IF j = 1 THEN <<1, 0>> ELSE <<0, 1>>
Sh(x, j, k) == <<x[1] + k * E(j)[1], x[2] + k * E(j)[2]>>
(* 12 h f'(x) = -f(x+2h) + 8 f(x+h) - 8 f(x-h) + f(x-2h): exact for degree <= 4 *)
Stencil(f(_), x, j) == -f(Sh(x, j, 2)) + 8 * f(Sh(x, j, 1)) - 8 * f(Sh(x, j, -1)) + f(Sh(x, j, -2))

C13_GradIsDerivative == \A j \in 1..2 :
   LET f(z) == L2(c.dat, z, c.y, c.rho) IN 24 * out.Lx[j] = Stencil(f, c.x, j)
C13_HessIsDerivative == \A i \in 1..2, j \in 1..2 :
   LET f(z) == Lx(c.dat, z, c.y, c.rho)[i] IN 12 * out.Lxx[i][j] = Stencil(f, c.x, j)
C13_DualDerivative == 2 * C(c.dat, c.x) = L2(c.dat, c.x, c.y + 1, c.rho) - L2(c.dat, c.x, c.y, c.rho)
(* the generalised Jacobian for a frozen active set is the derivative of the frozen residual *)
C13_ImplicitDerivIsJacobian == \A As \in SUBSET {1, 2} : \A i \in 1..2 :
   /\ \A j \in 1..2 :
        LET f(z) == IF i \in As THEN c.lamb * z[i] ELSE c.lamb * z[i] - PL(c, z, c.y)[i] IN
        12 * out.DL[As][i][j] = Stencil(f, c.x, j)
   /\ (IF i \in As THEN 0 ELSE PL(c, c.x, c.y)[i] - PL(c, c.x, c.y + 1)[i]) = out.DL[As][i][3]
C13_DualRows == /\ \A j \in 1..2 : LET f(z) == FLy(c, z, c.y) IN 12 * out.DL[{}][3][j] = Stencil(f, c.x, j)
                /\ FLy(c, c.x, c.y + 1) - FLy(c, c.x, c.y) = out.DL[{}][3][3]
C13_ProjectionInBox == \A j \in out.act : c.lamb * c.box.lb[j] <= out.proj[j] /\ out.proj[j] <= c.lamb * c.box.ub[j]
C13_ProjectionIdentityOffActive == \A j \in {1, 2} \ out.act : out.proj[j] = PL(c, c.x, c.y)[j]
(* stationarity residual zero  <=>  -(grad f + J'y) in the normal cone of the box (in-box x) *)
InNormalCone(bx, x, v) == \A j \in 1..2 :
    IF AtBoth(bx, x, j) THEN TRUE ELSE IF AtLower(bx, x, j) THEN v[j] <= 0 ELSE IF AtUpper(bx, x, j) THEN v[j] >= 0 ELSE v[j] = 0
C13_StationarityIsNormalCone == out.bviol = 0 => ((out.stat = 0) <=> InNormalCone(c.box, c.x, RNeg(c.dat, c.x, c.y)))
C13_BoundsDualSign == \A j \in 1..2 :
    /\ (out.d[j] > 0 => (j \in out.atUpper \/ j \in out.atBoth))
    /\ (out.d[j] < 0 => (j \in out.atLower \/ j \in out.atBoth))
C13_LocalInfeasIsStationarity == out.bviol = 0 =>
    (out.linf <=> (out.cviol > 0 /\ InNormalCone(c.box, c.x, [j \in 1..2 |-> -J(c.dat, c.x)[j] * C(c.dat, c.x)])))
=============================================================================
