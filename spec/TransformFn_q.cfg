SPECIFICATION Spec
CONSTANTS
  Weights <- Wq
  Kinds <- Kq
  Points <- Pq
  Mults <- Mq
  Dats <- Dq
INVARIANT C04_Exact
INVARIANT C04_ChainRuleGrad
INVARIANT C04_ChainRuleJac
INVARIANT C04_ChainRuleHess
INVARIANT C04_MultiplierRescale
INVARIANT C04_RoundTrip
INVARIANT C04_StartSlackInBounds
INVARIANT C04_ResidualCorrespondence
INVARIANT C04_ZeroPadding
CHECK_DEADLOCK FALSE
