SPECIFICATION KKTSpec
INVARIANT SomeInternalKKT
CHECK_DEADLOCK FALSE
