SPECIFICATION Spec
INVARIANT C17_StructSingularIsSingular
INVARIANT C17_CramerSolves
INVARIANT C17_TransposeSameDet
CHECK_DEADLOCK FALSE
