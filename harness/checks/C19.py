"""C19 the derivative checker accepts correct derivatives and pinpoints wrong ones (DerivCheck.tla + replay + twins)."""
import numpy as np
import scipy.sparse as sps

import pygradflow.deriv_check as dc_mod
from harness import gen
from harness.checklib import Check
from harness.checks.C20 import _plain
from harness.checks.common import family_spec
from pygradflow.deriv_check import DerivError
from pygradflow.params import DerivCheck, Params
from pygradflow.problem import Problem
from pygradflow.solver import Solver

FLAGS = {"NoCheck": DerivCheck.NoCheck, "CheckFirst": DerivCheck.CheckFirst, "CheckSecond": DerivCheck.CheckSecond,
         "CheckAll": DerivCheck.CheckAll}
ORDER = {"NoCheck": [], "CheckFirst": ["grad", "jac"], "CheckSecond": ["hess"], "CheckAll": ["grad", "jac", "hess"]}


class WrongDeriv(Problem):
    """f = x1^2 + x1 x2 + 2 x2^2 + x1;  c1 = x1 + 2 x2 + x1^2/2 - 1;  c2 = x1 x2 - x2   (both = 0)"""

    MAGS = ({"above": 1.0, "aboveNeg": -1.0, "below": 1e-7},
            # a second realisation of the spec's classes: 2.5 tolerances off, on entries of size 3..9 (an absolute criterion)
            {"above": 2.5e-4, "aboveNeg": -2.5e-4, "below": 1e-7})

    def __init__(self, errs, fmt, dup=False, real=0):
        self.mags = self.MAGS[real]
        self.errs = errs
        self.fmt = fmt
        self.dup = dup      # valid scipy matrices may hold duplicate (unsummed) entries, e.g. after element-wise assembly

        super().__init__(np.full(2, -5.0), np.full(2, 5.0), num_cons=2)

    def _mat(self, M):
        if not self.dup or self.fmt == "coo":
            return sps.coo_matrix(M).asformat(self.fmt)
        # each entry split into two stored entries 0.25 v + 0.75 v (exact in binary), duplicates NOT summed
        r, c = np.nonzero(M)
        rows = np.concatenate([r, r])
        cols = np.concatenate([c, c])
        data = np.concatenate([0.25 * M[r, c], 0.75 * M[r, c]])
        if self.fmt == "csr":
            order = np.lexsort((cols, rows))
            indptr = np.concatenate([[0], np.cumsum(np.bincount(rows, minlength=M.shape[0]))])
            return sps.csr_matrix((data[order], cols[order], indptr), shape=M.shape)
        order = np.lexsort((rows, cols))
        indptr = np.concatenate([[0], np.cumsum(np.bincount(cols, minlength=M.shape[1]))])
        return sps.csc_matrix((data[order], rows[order], indptr), shape=M.shape)

    def _delta(self, which, shape):
        E = np.zeros(shape)
        for e in self.errs:
            if e["which"] == which:
                E[e["i"] - 1, e["j"] - 1] += self.mags[e["mag"]]
        return E

    def obj(self, x):
        return x[0] ** 2 + x[0] * x[1] + 2 * x[1] ** 2 + x[0]

    def obj_grad(self, x):
        return np.array([2 * x[0] + x[1] + 1, x[0] + 4 * x[1]]) + self._delta("grad", (1, 2))[0]

    def cons(self, x):
        return np.array([x[0] + 2 * x[1] + 0.5 * x[0] ** 2 - 1, x[0] * x[1] - x[1]])

    def cons_jac(self, x):
        J = np.array([[1 + x[0], 2.0], [x[1], x[0] - 1]]) + self._delta("jac", (2, 2))
        return self._mat(J)

    def lag_hess(self, x, y):
        H = np.array([[2.0 + y[0], 1.0 + y[1]], [1.0 + y[1], 4.0]]) + self._delta("hess", (2, 2))
        return self._mat(H)


def observe(flags, errs, fmt, dup=False, reuse=False, real=0):
    calls = []
    orig = dc_mod.deriv_check

    def counting(f, xval, dval, params):
        calls.append(1)
        return orig(f, xval, dval, params)

    dc_mod.deriv_check = counting
    try:
        prob = WrongDeriv([] if reuse else errs, fmt, dup, real)
        params = Params(deriv_check=FLAGS[flags], iteration_limit=0, display_interval=1e9)
        try:
            solver = Solver(prob, params)
            if reuse:
                # the same solver object first solves from another start with derivatives that are correct there; the check
                # belongs to every solve, not to the solver object
                solver.solve(np.array([-1.0, 0.75]), np.array([0.5, 1.0]))
                del calls[:]
                prob.errs = errs
            if real:
                solver.solve(np.array([4.5, -3.25]), np.array([3.0, -6.0]))
            else:
                solver.solve(np.array([0.5, -0.25]), np.array([1.0, -2.0]))
            return {"kind": "pass", "ncalls": len(calls)}
        except DerivError as e:
            st = ORDER[flags][len(calls) - 1] if 0 < len(calls) <= len(ORDER[flags]) else "?"
            return {"kind": "error", "stage": st, "col": int(e.col_index) + 1, "rows": sorted(int(i) + 1 for i in e.invalid_indices),
                    "ncalls": len(calls)}
        except Exception as e:  # noqa
            return {"kind": "exception", "type": type(e).__name__, "msg": str(e)[:100]}
    finally:
        dc_mod.deriv_check = orig


def twin_groups(n, seed):
    rng = np.random.default_rng(seed)
    gs = []
    for i in range(n):
        ps = family_spec(i, rng) if i % 3 else ("boxdomain", int(rng.integers(0, 2 ** 31)), 3, 1, {"interior": True})
        if ps[0] == "boxdomain":
            ps = (ps[0], ps[1], ps[2], ps[3], dict(ps[4], interior=True))   # smooth, well-scaled at the start (the statement's class)
        if ps[0] in ("infeasible", "unbounded"):
            ps = ("convex_qp", int(rng.integers(0, 2 ** 31)), 4, 2, {"quad_rows": True})
        pk = gen.random_params(rng, iteration_limit=12)
        runs = [{"prob": ps, "params": pk, "run": "A", "twin": "C19"}]
        for rn, fl in zip(("B", "C"), (DerivCheck.CheckAll, [DerivCheck.CheckFirst, DerivCheck.CheckSecond][i % 2])):
            runs.append({"prob": ps, "params": dict(pk, deriv_check=fl), "run": rn, "twin": "C19"})
        gs.append({"tag": "C19", "runs": runs})
    return gs


def main():
    chk = Check("C19")
    states = chk.mc_dump("DerivCheck.cfg", "DerivCheck.tla")
    if states is not None:
        fmts = ("coo", "csr", "csc")
        k = 0
        for st in states:
            v = st["verdict"]
            if v["kind"] == "running":
                continue
            k += 1
            if not chk.thorough and ((k * 2654435761 >> 8) + chk.seed) % 4:      # scattered sample of the case space
                continue
            errs = [dict(e) for e in sorted(st["cs"]["errs"], key=lambda e: (e["which"], e["i"], e["j"]))] if st["cs"]["errs"] else []
            real = ((k * 40503) >> 5) % 2
            obs = observe(st["cs"]["flags"], errs, fmts[k % 3], dup=(k % 8 < 4), reuse=bool((k // 3) % 2), real=real)
            chk.case((st["cs"]["flags"], tuple((e["which"], e["i"], e["j"], e["mag"]) for e in errs)))
            exp = {"kind": v["kind"]}
            if v["kind"] == "error":
                exp.update(stage=v["stage"], col=v["col"], rows=sorted(v["rows"]))
            ok = obs["kind"] == exp["kind"] and (exp["kind"] == "pass" or
                                                 (obs.get("stage") == exp["stage"] and obs.get("col") == exp["col"] and obs.get("rows") == exp["rows"]))
            if st["cs"]["flags"] == "NoCheck" and obs.get("ncalls", 0) != 0:
                ok = False
            if len(chk.samples) < 2 and k % 97 == 0:
                chk.samples.append({"flags": st["cs"]["flags"], "wrong_entries": errs, "expected": exp, "observed": obs})
            if not ok:
                chk.kernel_violation(("derivcheck.outcome", exp["kind"], obs["kind"]),
                                     {"flags": st["cs"]["flags"], "wrong_entries": errs, "realisation": real, "expected": exp, "observed": obs})
        chk.traces += chk.cases
    chk.tv(twin_groups(150 if chk.thorough else 24, chk.seed), "C19 twins")
    chk.assumptions += ["'above' / 'aboveNeg' = wrong by +1.0 / -1.0, 'below' = wrong by 1e-7 (tolerance 1e-4), in half of the cases instead +-2.5e-4 on entries of size 2..9 at another start; the band near the tolerance is don't-care",
                        "well-scaled: second derivatives O(1), so forward-difference error ~1e-8 << 1e-4"]
    return chk.finish(rule="TLC explores the check order and column loop for every set of <= 2 wrong entries x magnitude class x flag "
                           "(all cases); each final verdict is replayed through Solver.solve on a problem with exactly those wrong entries "
                           "(COO/CSR/CSC) and the raised DerivError (which check, column, rows) compared; twin real solves with/without the "
                           "check on correct problems must be bit-identical (never alters the solve, no false positives)")
