SPECIFICATION TSpec
CONSTANTS
  Limit = 1000000
  MaxRhoLev = 1000
  Vars = {}
POSTCONDITION TDone
CHECK_DEADLOCK FALSE
