----------------------------- MODULE ScalingFn -----------------------------
(***************************************************************************)
(* C20: the automatic scalings, transcribed in exact integer arithmetic.   *)
(* A magnitude v is the integer n with v = n / 2^S.  frexp, the row        *)
(* maxima of the column-prescaled Jacobian and the iterated square-root    *)
(* column-sum equilibration are defined from their mathematics; TLC checks *)
(* over the whole small domain that the resulting power-of-two weights     *)
(* normalise magnitudes into [1,2) (Nominal, GradJac) resp. column sums    *)
(* into [1,4) (KKT), in particular for entries smaller than one.  Every    *)
(* state is one case (input, expected weights) replayed on scale.py.       *)
(***************************************************************************)
EXTENDS Integers, Sequences, FiniteSets

CONSTANTS Vals,     \* magnitudes (integers n, value n/2^S), 0 allowed
          JVals,    \* magnitudes used for matrix entries (a subset, keeps the case count down)
          KVals     \* magnitudes used for KKT entries

S == 5                       \* value = n / 2^S
G == 6                       \* extra scale of the prescaled Jacobian: P = |J| * 2^(gw + G) / 2^S
T == 21                      \* KKT entries are n * 2^(T-S) / 2^T

VARIABLES c, out

Pow2(k) == IF k <= 0 THEN 1 ELSE 2 ^ k
Abs(n) == IF n < 0 THEN -n ELSE n
BitLen(n) == IF n = 0 THEN 0 ELSE CHOOSE k \in 1..31 : Pow2(k - 1) <= n /\ n < Pow2(k)
(* exponent e of frexp: value = f * 2^e, f in [1/2, 1); value = n / 2^sc; frexp(0) = (0, 0) *)
FrexpExp(n, sc) == IF n = 0 THEN 0 ELSE BitLen(n) - sc
NomW(n) == 1 - FrexpExp(Abs(n), S)

(* (n / 2^sc) * 2^w in [lo, hi) for integers lo < hi *)
Scaled(n, sc, w, lo, hi) ==
  LET num == IF w >= 0 THEN n * Pow2(w) ELSE n
      den == IF w >= 0 THEN Pow2(sc) ELSE Pow2(sc) * Pow2(-w)
  IN lo * den <= num /\ num < hi * den

Max2(a, b) == IF a >= b THEN a ELSE b

(* ---- nominal values ---- *)
NominalCases == {[fn |-> "nominal", v |-> <<a, b>>] : a \in Vals \cup {-n : n \in Vals}, b \in Vals}
NominalOut(cs) == [w |-> <<NomW(cs.v[1]), NomW(cs.v[2])>>]
NominalOK(cs, o) == \A j \in 1..2 : cs.v[j] # 0 => Scaled(Abs(cs.v[j]), S, o.w[j], 1, 2)

(* ---- gradient / Jacobian ---- *)
GradJacCases == {[fn |-> "gradjac", g |-> <<g1, g2>>, J |-> <<<<a, b>>, <<cc, d>>>>] :
                   g1 \in Vals, g2 \in Vals \cup {-n : n \in JVals}, a \in JVals, b \in JVals \cup {-n : n \in JVals},
                   cc \in JVals, d \in JVals}
GW(cs, j) == NomW(cs.g[j])
Pre(cs, i, j) == Abs(cs.J[i][j]) * Pow2(GW(cs, j) + G)        \* exact prescaled entry, scale 2^(S+G)
RowMax(cs, i) == Max2(Pre(cs, i, 1), Pre(cs, i, 2))
CW(cs, i) == 1 - FrexpExp(RowMax(cs, i), S + G)
GradJacOut(cs) == [vw |-> <<-GW(cs, 1), -GW(cs, 2)>>, cw |-> <<CW(cs, 1), CW(cs, 2)>>]
GradJacOK(cs, o) ==
  /\ \A j \in 1..2 : cs.g[j] # 0 => Scaled(Abs(cs.g[j]), S, -o.vw[j], 1, 2)
  /\ \A i \in 1..2 : RowMax(cs, i) # 0 =>
        (* largest entry of row i in scaled units: max_j |J_ij| 2^(cw_i - vw_j) *)
        Scaled(Max2(Abs(cs.J[i][1]) * Pow2(-o.vw[1] + G), Abs(cs.J[i][2]) * Pow2(-o.vw[2] + G)), S + G, o.cw[i], 1, 2)

(* ---- KKT equilibration of [[H, J'], [J, 0]], H = [[h11, h12],[h12, h22]], J = [j1, j2] ---- *)
KKTCases == {[fn |-> "kkt", h |-> <<h11, h12, h22>>, j |-> <<j1, j2>>] :
               h11 \in KVals, h12 \in KVals \cup {-n : n \in KVals \ {0}}, h22 \in KVals, j1 \in KVals, j2 \in KVals}
Mat0(cs) == LET q(n) == Abs(n) * Pow2(T - S) IN
  << <<q(cs.h[1]), q(cs.h[2]), q(cs.j[1])>>,
     <<q(cs.h[2]), q(cs.h[3]), q(cs.j[2])>>,
     <<q(cs.j[1]), q(cs.j[2]), 0>> >>
ColSum(A, j) == A[1][j] + A[2][j] + A[3][j]
(* exponent of frexp(sqrt(R)): ceil(e/2) for R = f 2^e; a (numerically) zero column counts as 1 *)
RSca(A, j) == LET R == ColSum(A, j) IN
  IF R = 0 THEN 0 ELSE 1 - ((FrexpExp(R, T) + 1) \div 2)
Shift(n, k) == IF k >= 0 THEN n * Pow2(k) ELSE n \div Pow2(-k)
ExactShift(n, k) == k >= 0 \/ n % Pow2(-k) = 0
RECURSIVE Equil(_, _, _)
Equil(A, D, it) ==
  LET r == <<RSca(A, 1), RSca(A, 2), RSca(A, 3)>> IN
  IF r = <<0, 0, 0>> THEN [ret |-> TRUE, D |-> D, A |-> A, exact |-> TRUE]
  ELSE IF it = 0 THEN [ret |-> FALSE, D |-> D, A |-> A, exact |-> TRUE]
  ELSE IF \E i \in 1..3, j \in 1..3 : ~ExactShift(A[i][j], r[i] + r[j])
       THEN [ret |-> FALSE, D |-> D, A |-> A, exact |-> FALSE]
  ELSE Equil([i \in 1..3 |-> [j \in 1..3 |-> Shift(A[i][j], r[i] + r[j])]],
             <<D[1] + r[1], D[2] + r[2], D[3] + r[3]>>, it - 1)
KKTOut(cs) == LET e == Equil(Mat0(cs), <<0, 0, 0>>, 12) IN [ret |-> e.ret, D |-> e.D, exact |-> e.exact, A |-> e.A]
KKTOK(cs, o) == o.ret => \A j \in 1..3 : ColSum(o.A, j) # 0 => (Pow2(T) <= ColSum(o.A, j) /\ ColSum(o.A, j) < 4 * Pow2(T))

Init == \/ (c \in NominalCases /\ out = NominalOut(c))
        \/ (c \in GradJacCases /\ out = GradJacOut(c))
        \/ (c \in KKTCases /\ out = KKTOut(c))
Next == UNCHANGED <<c, out>>
Spec == Init /\ [][Next]_<<c, out>>

C20_Nominal == c.fn = "nominal" => NominalOK(c, out)
C20_GradJac == c.fn = "gradjac" => GradJacOK(c, out)
C20_KKT == c.fn = "kkt" => (KKTOK(c, out) /\ out.exact)
C20_KKTTerminates == c.fn = "kkt" => out.ret
=============================================================================
