---------------------------- MODULE FlowFilter ----------------------------
(***************************************************************************)
(* Kernel of the flow-integration solver (pygradflow/integration):         *)
(*                                                                         *)
(*  1. IntegrationSolver.create_filter: which variables the projected      *)
(*     gradient flow leaves free at a point, from where each x_j sits      *)
(*     (at its lower bound, upper bound, both (lb = ub), strictly inside), *)
(*     the sign of the flow direction dx_j = -(grad_x L_rho)_j and, when   *)
(*     that vanishes at a bound, the sign of its time derivative ddx_j.    *)
(*  2. ProblemSwitches.create_event_triggers: the ordered list of terminal *)
(*     events the integrator watches for, given the free set.              *)
(*  3. IntegrationSolver.handle_events: which of the time-ordered events   *)
(*     decides the outcome of one integration.                             *)
(*                                                                         *)
(* Signs are exact (-1, 0, 1): the replay realises them with exactly       *)
(* representable data, so the tolerance of Flow.isclose plays no role.     *)
(* State = one case together with the expected answer; TLC enumerates the  *)
(* case space (-dump) and harness/flowdriver.py replays every case on the  *)
(* real code.                                                              *)
(*                                                                         *)
(* Deliberate deviation kept as the code has it (named, not idealised):    *)
(* BothQuirk -- a variable with lb = ub whose dx vanishes is classified by *)
(* the *upper*-bound rule alone (the later assignment in create_filter     *)
(* overwrites the lower-bound one), so it is declared free when ddx < 0.   *)
(***************************************************************************)
EXTENDS Integers, Sequences, FiniteSets, SequencesExt

CONSTANTS N,          \* number of variables in a filter case
          MaxEvents   \* longest event sequence of a handle_events case

Sgn == {-1, 0, 1}

(* position variants: where x_j sits and which of its bounds are finite *)
PosVar == {[pos |-> "in", lbfin |-> a, ubfin |-> b] : a, b \in BOOLEAN}
          \cup {[pos |-> "lb", lbfin |-> TRUE, ubfin |-> b] : b \in BOOLEAN}
          \cup {[pos |-> "ub", lbfin |-> a, ubfin |-> TRUE] : a \in BOOLEAN}
          \cup {[pos |-> "both", lbfin |-> TRUE, ubfin |-> TRUE]}

VarCase == {[p |-> p, dx |-> s, ddx |-> t] : p \in PosVar, s \in Sgn, t \in Sgn}

AtLb(v) == v.p.pos \in {"lb", "both"}
AtUb(v) == v.p.pos \in {"ub", "both"}
AtBound(v) == AtLb(v) \/ AtUb(v)

Ambiguous(v) == AtBound(v) /\ v.dx = 0

(* "Degenerate bound": some ambiguous variable has a vanishing second-order term *)
Degenerate(c) == \E j \in 1..N : Ambiguous(c[j]) /\ c[j].ddx = 0

BothQuirk(v) == v.p.pos = "both" /\ v.dx = 0

Pinned(v) ==
  IF Ambiguous(v)
  THEN (IF AtUb(v) THEN v.ddx > 0 ELSE v.ddx < 0)          \* BothQuirk: AtUb wins
  ELSE (AtLb(v) /\ v.dx < 0) \/ (AtUb(v) /\ v.dx > 0)

FreeSet(c) == {j \in 1..N : ~Pinned(c[j])}

FilterAnswer(c) == IF Degenerate(c) THEN [kind |-> "raise", free |-> {}]
                   ELSE [kind |-> "ok", free |-> FreeSet(c)]

(***************************************************************************)
(* Event triggers for a free set: lower-bound crossings of free variables  *)
(* with a finite lower bound, then upper-bound crossings, then the sign    *)
(* change of the flow direction of each pinned variable (none if lb = ub:  *)
(* such a variable must stay where it is), then convergence, unbounded-    *)
(* ness and the penalty criterion.  Every trigger is terminal.             *)
(***************************************************************************)
(* a pinned variable that sits at no bound is an assertion failure in the code; it cannot arise from FreeSet *)
TriggersWellDefined(c, fr) == \A j \in 1..N : j \notin fr => AtBound(c[j])

Triggers(c, fr) ==
  LET lbs == FlattenSeq([j \in 1..N |-> IF j \in fr /\ c[j].p.lbfin THEN << <<"LB", j, -1>> >> ELSE <<>>])
      ubs == FlattenSeq([j \in 1..N |-> IF j \in fr /\ c[j].p.ubfin THEN << <<"UB", j, 1>> >> ELSE <<>>])
      gfs == FlattenSeq([j \in 1..N |-> IF j \notin fr /\ c[j].p.pos # "both"
                                          THEN << <<"GRAD_FIXED", j, IF AtLb(c[j]) THEN 1 ELSE -1>> >> ELSE <<>>])
  IN lbs \o ubs \o gfs \o << <<"CONVERGED", 0, 0>>, <<"UNBOUNDED", 0, 0>>, <<"PENALTY", 0, 0>> >>

(***************************************************************************)
(* handle_events: the events of one integration, ordered by time.  The     *)
(* first one decides, except that an objective-limit crossing at an        *)
(* infeasible point is ignored.  Variable 1 is free, variable 2 is pinned  *)
(* in the replayed configuration, so bound crossings concern variable 1    *)
(* and sign changes variable 2.                                            *)
(***************************************************************************)
EvKind == {"LB", "UB", "GRAD_LB", "GRAD_UB", "UNB_FEAS", "UNB_INFEAS", "PENALTY", "CONVERGED"}
EvSeqs == UNION {[1..k -> EvKind] : k \in 0..MaxEvents}

Decides(k) == k # "UNB_INFEAS"

RECURSIVE FirstDeciding(_, _)
FirstDeciding(s, i) == IF i > Len(s) THEN 0 ELSE IF Decides(s[i]) THEN i ELSE FirstDeciding(s, i + 1)

EventAnswer(s) ==
  LET i == FirstDeciding(s, 1) IN
  IF i = 0 THEN [kind |-> "none", flip |-> 0, at |-> 0]
  ELSE CASE s[i] \in {"LB", "UB"} -> [kind |-> "FILTER_CHANGED", flip |-> 1, at |-> i]
         [] s[i] \in {"GRAD_LB", "GRAD_UB"} -> [kind |-> "FILTER_CHANGED", flip |-> 2, at |-> i]
         [] s[i] = "UNB_FEAS" -> [kind |-> "UNBOUNDED", flip |-> 0, at |-> i]
         [] s[i] = "PENALTY" -> [kind |-> "PENALTY", flip |-> 0, at |-> i]
         [] OTHER -> [kind |-> "CONVERGED", flip |-> 0, at |-> i]

(***************************************************************************)
(* Case enumeration                                                        *)
(***************************************************************************)
VARIABLES what, case, answer, trig
vars == <<what, case, answer, trig>>

Init == \/ /\ what = "filter"
           /\ case \in [1..N -> VarCase]
           /\ answer = FilterAnswer(case)
           /\ trig = IF answer.kind = "ok" THEN Triggers(case, answer.free) ELSE <<>>
        \/ /\ what = "events"
           /\ case \in EvSeqs
           /\ answer = EventAnswer(case)
           /\ trig = <<>>
Next == UNCHANGED vars
Spec == Init /\ [][Next]_vars

(***************************************************************************)
(* What the flow relies on                                                 *)
(***************************************************************************)
(* a variable strictly inside its box is always free *)
InteriorFree == (what = "filter" /\ answer.kind = "ok") =>
                   \A j \in 1..N : case[j].p.pos = "in" => j \in answer.free
(* a pinned variable sits at a bound and the flow does not point strictly inward there *)
PinnedOutward == (what = "filter" /\ answer.kind = "ok") =>
                   \A j \in (1..N) \ answer.free :
                      /\ AtBound(case[j])
                      /\ ~(case[j].p.pos = "lb" /\ case[j].dx > 0)
                      /\ ~(case[j].p.pos = "ub" /\ case[j].dx < 0)
(* a free variable at a one-sided bound is not pushed strictly outward (the code's check_point) *)
FreeInward == (what = "filter" /\ answer.kind = "ok") =>
                   \A j \in answer.free :
                      /\ ~(case[j].p.pos = "lb" /\ case[j].dx < 0)
                      /\ ~(case[j].p.pos = "ub" /\ case[j].dx > 0)
(* every trigger list ends with the three global events; bound triggers only for free variables with that bound finite *)
TriggerShape == (what = "filter" /\ answer.kind = "ok") =>
                   /\ TriggersWellDefined(case, answer.free)
                   /\ Len(trig) >= 3
                   /\ \A i \in 1..Len(trig) :
                        /\ trig[i][1] = "LB" => (trig[i][2] \in answer.free /\ case[trig[i][2]].p.lbfin)
                        /\ trig[i][1] = "UB" => (trig[i][2] \in answer.free /\ case[trig[i][2]].p.ubfin)
                        /\ trig[i][1] = "GRAD_FIXED" => trig[i][2] \notin answer.free
(* an ignored objective-limit crossing never decides; a deciding event exists iff some event decides *)
EventsSound == what = "events" =>
                   /\ (answer.kind = "none") <=> (\A i \in 1..Len(case) : ~Decides(case[i]))
                   /\ answer.at > 0 => (Decides(case[answer.at]) /\ \A i \in 1..(answer.at - 1) : ~Decides(case[i]))
=============================================================================
