"""Independent dense reference computations (numpy only; imports nothing from pygradflow).

Everything here is written from the mathematics of the property statements: the power-of-two change
of variables, the slack embedding, KKT classes, the implicit-Euler residual.  Inputs are the *user's*
problem object (duck-typed: var_lb, var_ub, cons_lb, cons_ub, num_cons, obj, obj_grad, cons, cons_jac,
lag_hess), integer weight vectors and plain floats.
"""
import numpy as np


def _dense(m):
    return np.asarray(m.todense()) if hasattr(m, "todense") else np.asarray(m)


def weights(scaling, n, m):
    if scaling is None:
        return np.zeros(n, dtype=int), np.zeros(m, dtype=int), 0
    return (np.asarray(scaling.var_weights, dtype=int), np.asarray(scaling.cons_weights, dtype=int),
            int(np.asarray(scaling.obj_weight)))


def slack_rows(problem):
    lb = np.asarray(problem.cons_lb, dtype=float)
    ub = np.asarray(problem.cons_ub, dtype=float)
    return [i for i in range(len(lb)) if lb[i] != ub[i]]


def transform_start(problem, scaling, params, x0, y0):
    """(x~, y~) of the internal start point: scale, then append slacks = clip(c~(x~), l~, u~)."""
    n = len(problem.var_lb)
    m = int(problem.num_cons)
    vw, cw, ow = weights(scaling, n, m)
    if x0 is None:
        x = np.clip(np.zeros(n), problem.var_lb, problem.var_ub)
    else:
        x = np.array(np.broadcast_to(x0, (n,)), dtype=float)
    y = np.zeros(m) if y0 is None else np.array(np.broadcast_to(y0, (m,)), dtype=float)
    xs = np.ldexp(x, vw)
    ys = np.ldexp(y, -(cw - ow))
    rows = slack_rows(problem)
    if rows:
        c = np.ldexp(np.asarray(problem.cons(np.array(x, copy=True)), dtype=float), cw)
        lt = np.ldexp(np.asarray(problem.cons_lb, dtype=float), cw)
        ut = np.ldexp(np.asarray(problem.cons_ub, dtype=float), cw)
        s = np.array([min(max(c[i], lt[i]), ut[i]) for i in rows])
        xs = np.concatenate([xs, s])
    dt = params.dtype
    return xs.astype(dt), ys.astype(dt)


def restore(problem, scaling, xi, yi, di=None):
    n = len(problem.var_lb)
    m = int(problem.num_cons)
    vw, cw, ow = weights(scaling, n, m)
    x = np.ldexp(np.asarray(xi)[:n], -vw)
    y = np.ldexp(np.asarray(yi), cw - ow)
    if di is None:
        return x, y
    d = np.ldexp(np.asarray(di)[:n], vw - ow)
    return x, y, d


class Internal:
    """The internal (scaled, slack-embedded) problem evaluated from the user's callbacks."""

    def __init__(self, problem, scaling):
        self.p = problem
        self.n = len(problem.var_lb)
        self.m = int(problem.num_cons)
        self.vw, self.cw, self.ow = weights(scaling, self.n, self.m)
        self.rows = slack_rows(problem)
        lb = np.ldexp(np.asarray(problem.var_lb, dtype=float), self.vw)
        ub = np.ldexp(np.asarray(problem.var_ub, dtype=float), self.vw)
        cl = np.ldexp(np.asarray(problem.cons_lb, dtype=float), self.cw)
        cu = np.ldexp(np.asarray(problem.cons_ub, dtype=float), self.cw)
        self.lb = np.concatenate([lb, cl[self.rows]]) if self.rows else lb
        self.ub = np.concatenate([ub, cu[self.rows]]) if self.rows else ub
        self.cl, self.cu = cl, cu

    def xu(self, xi):
        return np.ldexp(np.asarray(xi, dtype=float)[: self.n], -self.vw)

    def obj(self, xi):
        return float(np.ldexp(self.p.obj(self.xu(xi)), self.ow))

    def grad(self, xi):
        g = np.ldexp(np.asarray(self.p.obj_grad(self.xu(xi)), dtype=float), self.ow - self.vw)
        return np.concatenate([g, np.zeros(len(self.rows))])

    def cons(self, xi):
        if self.m == 0:
            return np.zeros(0)
        c = np.ldexp(np.asarray(self.p.cons(self.xu(xi)), dtype=float), self.cw)
        s = np.asarray(xi, dtype=float)[self.n:]
        out = c.copy()
        for k, i in enumerate(self.rows):
            out[i] = c[i] - s[k]
        for i in range(self.m):
            if i not in self.rows:
                out[i] = c[i] - self.cl[i]
        return out

    def jac(self, xi):
        if self.m == 0:
            return np.zeros((0, self.n))
        J = _dense(self.p.cons_jac(self.xu(xi))).astype(float)
        J = np.ldexp(J, self.cw[:, None] - self.vw[None, :])
        S = np.zeros((self.m, len(self.rows)))
        for k, i in enumerate(self.rows):
            S[i, k] = -1.0
        return np.hstack([J, S])

    def hess(self, xi, yi):
        yu = np.ldexp(np.asarray(yi, dtype=float), self.cw - self.ow)
        H = _dense(self.p.lag_hess(self.xu(xi), yu)).astype(float)
        H = np.ldexp(H, self.ow - self.vw[:, None] - self.vw[None, :])
        N = self.n + len(self.rows)
        out = np.zeros((N, N))
        out[: self.n, : self.n] = H
        return out


def implicit_euler_residual(ip, x0, y0, x1, y1, rho, dt):
    """|| (x1 - P(x0 - dt grad_x L_rho(x1,y1)), y1 - y0 - dt c(x1)) ||_2 on the internal problem
    `ip` (an Internal), with the true projection onto the box."""
    x1 = np.asarray(x1, dtype=float)
    g = ip.grad(x1)
    c = ip.cons(x1)
    if c.size:
        gl = g + ip.jac(x1).T @ (rho * c + np.asarray(y1, dtype=float))
    else:
        gl = g
    p = np.clip(np.asarray(x0, dtype=float) - dt * gl, ip.lb, ip.ub)
    rx = x1 - p
    ry = np.asarray(y1, dtype=float) - (np.asarray(y0, dtype=float) + dt * c)
    return float(np.sqrt(rx @ rx + ry @ ry))


def kkt_classes(problem, scaling, params, x, y, d, rel_slack=1e-9):
    """Per-row / per-variable classes of the user-level KKT conditions at (x, y, d) (DESIGN C01).
    rel_slack: relative slack on the tolerances (re-evaluation rounding; the flow-integration solver stops at
    an event located by root finding, i.e. at residuum = tol up to the localisation accuracy, and uses 1e-6)."""
    n = len(problem.var_lb)
    m = int(problem.num_cons)
    vw, cw, ow = weights(scaling, n, m)
    tol = float(params.opt_tol)
    atol = float(params.active_tol)
    x = np.asarray(x, dtype=float)
    y = np.asarray(y, dtype=float)
    d = np.asarray(d, dtype=float)
    lb = np.asarray(problem.var_lb, dtype=float)
    ub = np.asarray(problem.var_ub, dtype=float)
    bounds_exact = bool((x >= lb).all() and (x <= ub).all())
    g = np.asarray(problem.obj_grad(np.array(x, copy=True)), dtype=float)
    rows = []
    if m > 0:
        c = np.asarray(problem.cons(np.array(x, copy=True)), dtype=float)
        J = _dense(problem.cons_jac(np.array(x, copy=True))).astype(float)
        cl = np.asarray(problem.cons_lb, dtype=float)
        cu = np.asarray(problem.cons_ub, dtype=float)
        for i in range(m):
            T = (tol + atol) * 2.0 ** (-int(cw[i])) * (1 + rel_slack) + 1e-13 * (abs(c[i]) + 1.0)
            Ty = tol * 2.0 ** (int(cw[i]) - ow) * (1 + rel_slack)
            if c[i] < cl[i] - T:
                pos = "below"
            elif c[i] > cu[i] + T:
                pos = "above"
            else:
                lo = c[i] <= cl[i] + T
                hi = c[i] >= cu[i] - T
                pos = "atBoth" if (lo and hi) else ("atLower" if lo else ("atUpper" if hi else "inside"))
            ys = "pos" if y[i] > Ty else ("neg" if y[i] < -Ty else "zero")
            rows.append({"pos": pos, "ysign": ys})
        jty = J.T @ y
        mag = np.abs(J).T @ np.abs(y)
    else:
        jty = np.zeros(n)
        mag = np.zeros(n)
    vs = []
    r = g + jty + d
    for j in range(n):
        ta = atol * 2.0 ** (-int(vw[j]))
        lo = abs(x[j] - lb[j]) <= ta
        hi = abs(ub[j] - x[j]) <= ta
        if x[j] < lb[j]:
            pos = "below"
        elif x[j] > ub[j]:
            pos = "above"
        else:
            pos = "atBoth" if (lo and hi) else ("atLower" if lo else ("atUpper" if hi else "inside"))
        Ts = tol * 2.0 ** (int(vw[j]) - ow) * (1 + rel_slack) + 1e-12 * (abs(g[j]) + mag[j] + abs(d[j]))
        vs.append({"pos": pos, "dsign": "pos" if d[j] > 0 else ("neg" if d[j] < 0 else "zero"),
                   "stat": "le" if abs(r[j]) <= Ts else "gt"})
    return {"boundsExact": bounds_exact, "rows": rows, "vars": vs}


def justify(problem, scaling, params, xi, yi):
    """Classes justifying LocallyInfeasible / Unbounded at the internal point (xi, yi), in the scaled
    units the property names."""
    ip = Internal(problem, scaling)
    xi = np.asarray(xi, dtype=float)
    tol = float(params.opt_tol)
    c = ip.cons(xi)
    viol = float(np.max(np.abs(c))) if c.size else 0.0
    J = ip.jac(xi)
    r = J.T @ c if c.size else np.zeros(xi.size)
    atol = float(params.active_tol)
    at_l = np.abs(xi - ip.lb) <= atol
    at_u = np.abs(ip.ub - xi) <= atol
    both = at_l & at_u
    r = r.copy()
    onlyl = at_l & ~both
    onlyu = at_u & ~both
    r[onlyl] = np.minimum(r[onlyl], 0.0)
    r[onlyu] = np.maximum(r[onlyu], 0.0)
    # a fixed variable (both bounds active) cannot move: any gradient component is stationary
    r[both] = 0.0
    rn = float(np.max(np.abs(r))) if r.size else 0.0
    bviol = float(max(np.max(np.maximum(ip.lb - xi, 0.0), initial=0.0), np.max(np.maximum(xi - ip.ub, 0.0), initial=0.0)))
    return {
        "violGt": bool(viol > tol * (1 - 1e-9)),
        # rounding of J^T c: n * eps * max_j sum_i |J_ij| |c_i|
        "infStat": bool(rn <= float(params.local_infeas_tol) * (1 + 1e-6)
                        + 8.0 * 2.2e-16 * max(1, c.size) * (float((np.abs(J).T @ np.abs(c)).max()) if c.size else 0.0)),
        "feas": bool(viol <= tol * (1 + 1e-9) and bviol <= tol * (1 + 1e-9)),
        "objLe": bool(ip.obj(xi) <= float(params.obj_lower_limit)),
    }
