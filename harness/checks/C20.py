"""C20 automatic scalings normalise magnitudes with exact powers of two (ScalingFn.tla + replay)."""
from fractions import Fraction

import numpy as np
import scipy.sparse as sps

from harness.checklib import Check
from pygradflow.scale import Scaling

S = 5


def val(n):
    return n / 2.0 ** S


def in_range(fr, lo, hi):
    return lo <= fr < hi


def check_nominal(c, out):
    v = np.array([val(n) for n in c["v"]])
    sc = Scaling.from_nominal_values(v, np.array([val(c["v"][1])]))
    got = [int(w) for w in sc.var_weights]
    errs = []
    for j in range(2):
        if c["v"][j] != 0 and not in_range(Fraction(abs(c["v"][j]), 2 ** S) * Fraction(2) ** got[j], 1, 2):
            errs.append("nominal.range")
    if got != list(out["w"]):
        errs.append("nominal.weights")
    return errs, {"got": got}


def check_gradjac(c, out, fmt):
    g = np.array([val(n) for n in c["g"]])
    J = np.array([[val(n) for n in row] for row in c["J"]])
    sc = Scaling.from_grad_jac(g, sps.coo_matrix(J).asformat(fmt))
    vw = [int(w) for w in sc.var_weights]
    cw = [int(w) for w in sc.cons_weights]
    errs = []
    for j in range(2):
        if c["g"][j] != 0 and not in_range(Fraction(abs(c["g"][j]), 2 ** S) * Fraction(2) ** (-vw[j]), 1, 2):
            errs.append("gradjac.grad.range")
    for i in range(2):
        row = [Fraction(abs(c["J"][i][j]), 2 ** S) * Fraction(2) ** (cw[i] - vw[j]) for j in range(2)]
        if max(row) != 0 and not in_range(max(row), 1, 2):
            errs.append("gradjac.rowmax.range")
    if vw != list(out["vw"]) or cw != list(out["cw"]):
        errs.append("gradjac.weights")
    return errs, {"got_vw": vw, "got_cw": cw}


def check_kkt(c, out, fmt):
    h = [val(n) for n in c["h"]]
    j = [val(n) for n in c["j"]]
    H = np.array([[h[0], h[1]], [h[1], h[2]]])
    J = np.array([j])
    errs = []
    try:
        sc = Scaling.from_equilibrated_kkt(sps.coo_matrix(H).asformat(fmt), sps.coo_matrix(J).asformat(fmt))
    except Exception as e:  # "Equilibration failed to converge" is allowed by the statement (whenever it returns)
        if out["ret"] and "failed to converge" not in str(e):
            errs.append("kkt.raised")
        return errs, {"raised": str(e)[:100]}
    D = [-int(w) for w in sc.var_weights] + [int(w) for w in sc.cons_weights]
    K = [[Fraction(abs(c["h"][0]), 32), Fraction(abs(c["h"][1]), 32), Fraction(abs(c["j"][0]), 32)],
         [Fraction(abs(c["h"][1]), 32), Fraction(abs(c["h"][2]), 32), Fraction(abs(c["j"][1]), 32)],
         [Fraction(abs(c["j"][0]), 32), Fraction(abs(c["j"][1]), 32), Fraction(0)]]
    for col in range(3):
        s = sum(K[r][col] * Fraction(2) ** (D[r] + D[col]) for r in range(3))
        if s != 0 and not in_range(s, 1, 4):
            errs.append("kkt.colsum.range")
            break
    return errs, {"got_D": D, "spec_D": list(out["D"])}


def main():
    chk = Check("C20")
    states = chk.mc_dump("ScalingFn.cfg" if chk.thorough else "ScalingFn_q.cfg", "ScalingFn.tla")
    if states is not None:
        fmts = ("coo", "csr", "csc")
        stride = 1 if chk.thorough else 3
        drift = 0
        for si, st in enumerate(states):
            c, out = st["c"], st["out"]
            if c["fn"] != "nominal" and ((si * 2654435761 >> 8) + chk.seed) % stride:
                continue
            if c["fn"] == "nominal":
                errs, info = check_nominal(c, out)
            elif c["fn"] == "gradjac":
                errs, info = check_gradjac(c, out, fmts[si % 3])
            else:
                errs, info = check_kkt(c, out, fmts[si % 3])
            chk.case((c["fn"], si))
            if len(chk.samples) < 3 and si % 977 == 5:
                chk.samples.append({"case": _plain(c), "spec": _plain(out) if c["fn"] != "kkt" else {"D": list(out["D"])}, "code": info})
            for e in set(errs):
                if e.endswith(".weights"):
                    pass
                chk.kernel_violation((e, c["fn"]), {"case": _plain(c), "code": info,
                                                    "spec": _plain({k: v for k, v in out.items() if k != "A"})})
        chk.traces += chk.cases
    # larger KKT matrices with dyadic entries (not all of them can be equilibrated): whenever from_equilibrated_kkt returns,
    # the predicate must hold on its weights -- evaluated exactly with Fractions
    rng = np.random.default_rng(chk.seed + 20)
    nret = nraise = 0
    for t in range(3000 if chk.thorough else 500):
        n = int(rng.integers(1, 4))
        m = int(rng.integers(1, 6))
        wide = 45 if t % 3 == 1 else 6             # "entries spanning many orders of magnitude": 2^-45 .. 2^45
        He = rng.integers(-wide, wide + 1, size=(n, n))
        H = np.where(rng.uniform(size=(n, n)) < 0.5, np.ldexp(1.0, He) * rng.choice([1.0, 1.5, -1.0, 1.25], size=(n, n)), 0.0)
        H = np.triu(H) + np.triu(H, 1).T
        if t % 7 == 0:
            H[:] = 0.0
        Je = rng.integers(-wide, wide + 1, size=(m, n))
        J = np.where(rng.uniform(size=(m, n)) < 0.7, np.ldexp(1.0, Je) * rng.choice([1.0, 1.5, -1.75], size=(m, n)), 0.0)
        if t % 5 == 0:
            J[:] = np.ldexp(1.0, int(rng.integers(-4, 5)))          # one variable coupled to equal rows
        try:
            sc = Scaling.from_equilibrated_kkt(sps.coo_matrix(H), sps.coo_matrix(J))
        except Exception as e:  # noqa
            nraise += 1
            if "failed to converge" not in str(e):
                chk.kernel_violation(("kkt.random.exception", type(e).__name__), {"H": H.tolist(), "J": J.tolist(), "msg": str(e)[:100]})
            continue
        nret += 1
        D = [-int(w) for w in sc.var_weights] + [int(w) for w in sc.cons_weights]
        K = np.block([[H, J.T], [J, np.zeros((m, m))]])
        bad = None
        for col in range(n + m):
            ssum = sum(Fraction(abs(float(K[r, col]))) * Fraction(2) ** (D[r] + D[col]) for r in range(n + m))
            if ssum != 0 and not (1 <= ssum < 4):
                bad = (col, float(ssum))
                break
        chk.case(("kkt.random", t))
        if bad is not None:
            chk.kernel_violation(("kkt.random.colsum.range", "returned"), {"H": H.tolist(), "J": J.tolist(), "weights": D, "column": bad[0], "sum": bad[1]})
    # Nominal / GradJac on magnitudes far outside the enumerated domain (2^-300 .. 2^300), predicate evaluated exactly
    nwide = 0
    for t in range(1500 if chk.thorough else 300):
        n = int(rng.integers(1, 5))
        m = int(rng.integers(1, 4))
        e = 300 if t % 2 else 40
        mant = [1.0, 1.5, 1.999, 1.0000001, -1.25]
        v = np.where(rng.uniform(size=n) < 0.8, np.ldexp(rng.choice(mant, size=n), rng.integers(-e, e + 1, size=n)), 0.0)
        cv = np.where(rng.uniform(size=m) < 0.8, np.ldexp(rng.choice(mant, size=m), rng.integers(-e, e + 1, size=m)), 0.0)
        sc = Scaling.from_nominal_values(v, cv)
        for vals, ws, nm in ((v, sc.var_weights, "var"), (cv, sc.cons_weights, "cons")):
            for j in range(len(vals)):
                if vals[j] != 0 and not (1 <= Fraction(abs(float(vals[j]))) * Fraction(2) ** int(ws[j]) < 2):
                    chk.kernel_violation(("nominal.wide.range", nm), {"values": vals.tolist(), "weights": [int(w) for w in ws], "index": j})
        g = np.where(rng.uniform(size=n) < 0.8, np.ldexp(rng.choice(mant, size=n), rng.integers(-e, e + 1, size=n)), 0.0)
        J = np.where(rng.uniform(size=(m, n)) < 0.6, np.ldexp(rng.choice(mant, size=(m, n)), rng.integers(-e // 2, e // 2 + 1, size=(m, n))), 0.0)
        sc = Scaling.from_grad_jac(g, sps.coo_matrix(J).asformat(("coo", "csr", "csc")[t % 3]))
        vw = [int(w) for w in sc.var_weights]
        cw = [int(w) for w in sc.cons_weights]
        for j in range(n):
            if g[j] != 0 and not (1 <= Fraction(abs(float(g[j]))) * Fraction(2) ** (-vw[j]) < 2):
                chk.kernel_violation(("gradjac.wide.grad.range", "var"), {"g": g.tolist(), "vw": vw, "index": j})
        for i in range(m):
            row = [Fraction(abs(float(J[i, j]))) * Fraction(2) ** (cw[i] - vw[j]) for j in range(n)]
            if max(row) != 0 and not (1 <= max(row) < 2):
                chk.kernel_violation(("gradjac.wide.rowmax.range", "row"), {"g": g.tolist(), "J": J.tolist(), "vw": vw, "cw": cw, "row": i})
        nwide += 1
        chk.case(("wide", t))
    chk.cov["wide_magnitude_cases"] = nwide
    chk.cov["kkt_random"] = {"returned": nret, "raised_not_converged": nraise}
    chk.assumptions += ["exactness domain of the enumerated kernel: magnitudes n/32 with n < 2^11 (every operation of scale.py on them is exact in binary64); randomised cases reach 2^-300..2^300 (Nominal/GradJac) and 2^-45..2^45 (KKT)",
                        "the range predicates are evaluated with python Fractions on the *code's* weights"]
    return chk.finish(rule="TLC enumerates every case of the domain (nominal vectors, gradient+2x2 Jacobian, 3x3 KKT) and checks the "
                           "normalisation predicates on the exact transcription; each case is replayed through Scaling.from_nominal_values / "
                           "from_grad_jac / from_equilibrated_kkt in COO/CSR/CSC and both the weights and the predicate on the code's own "
                           "weights are compared", extra_cov={"exhaustive": True})


def _plain(o):
    if isinstance(o, dict):
        return {k: _plain(v) for k, v in o.items()}
    if isinstance(o, (tuple, list)):
        return [_plain(v) for v in o]
    if isinstance(o, frozenset):
        return sorted(_plain(v) for v in o)
    return o
