SPECIFICATION Spec
CONSTANTS
  N = 2
  MaxEvents = 3
INVARIANT InteriorFree
INVARIANT PinnedOutward
INVARIANT FreeInward
INVARIANT TriggerShape
INVARIANT EventsSound
CHECK_DEADLOCK FALSE
