"""C13 residuals and augmented-Lagrangian derivatives match their definitions (Residuals.tla + exact replay)."""
import numpy as np
import scipy.sparse as sps

from harness.checklib import Check
from harness.checks.C20 import _plain
from pygradflow.implicit_func import ImplicitFunc, ScaledImplicitFunc
from pygradflow.iterate import Iterate
from pygradflow.params import Params
from pygradflow.problem import Problem

INF = 100000
DATA = {1: dict(q=(2, 4), r=1, p=(-1, 3), a=(1, -2), d=2, b=1), 2: dict(q=(4, 2), r=-1, p=(2, -2), a=(-1, 2), d=-2, b=-1)}


def fv(v):
    return np.inf if v >= INF else (-np.inf if v <= -INF else float(v))


class Poly1(Problem):
    def __init__(self, dat, box, fmt):
        self.D = DATA[dat]
        self.fmt = fmt
        super().__init__(np.array([fv(v) for v in box["lb"]]), np.array([fv(v) for v in box["ub"]]), num_cons=1)

    def obj(self, x):
        D = self.D
        return 0.5 * (D["q"][0] * x[0] ** 2 + D["q"][1] * x[1] ** 2) + D["r"] * x[0] * x[1] + D["p"][0] * x[0] + D["p"][1] * x[1]

    def obj_grad(self, x):
        D = self.D
        return np.array([D["q"][0] * x[0] + D["r"] * x[1] + D["p"][0], D["q"][1] * x[1] + D["r"] * x[0] + D["p"][1]])

    def cons(self, x):
        D = self.D
        return np.array([D["a"][0] * x[0] + D["a"][1] * x[1] + 0.5 * D["d"] * x[0] ** 2 - D["b"]])

    def cons_jac(self, x):
        D = self.D
        return sps.coo_matrix(np.array([[D["a"][0] + D["d"] * x[0], D["a"][1]]], dtype=float)).asformat(self.fmt)

    def lag_hess(self, x, y):
        D = self.D
        return sps.coo_matrix(np.array([[D["q"][0] + y[0] * D["d"], D["r"]], [D["r"], D["q"][1]]], dtype=float)).asformat(self.fmt)


def eq(a, b):
    a = np.asarray(a, dtype=float)
    b = np.asarray(b, dtype=float)
    return a.shape == b.shape and bool((a == b).all())


def mask(s):
    return np.array([1 in s, 2 in s])


def replay(c, out, fmt):
    prob = Poly1(c["dat"], c["box"], fmt)
    params = Params()
    x = np.array(c["x"], dtype=float)
    y = np.array([float(c["y"])])
    rho = float(c["rho"])
    lamb = float(c["lamb"])
    dt = 1.0 / lamb
    it = Iterate(prob, params, x, y)
    errs = []

    def chk(name, ok):
        if not ok:
            errs.append(name)

    chk("aug_lag", 2.0 * it.aug_lag(rho) == out["L2"])
    chk("aug_lag_deriv_x", eq(it.aug_lag_deriv_x(rho), out["Lx"]))
    chk("aug_lag_deriv_xx", eq(it.aug_lag_deriv_xx(rho).toarray(), [list(r) for r in out["Lxx"]]))
    chk("cons_violation", it.cons_violation == out["cviol"])
    chk("bound_violation", it.bound_violation == out["bviol"])
    a = it.active_set
    chk("active_set", eq(a.at_lower, mask(out["atLower"])) and eq(a.at_upper, mask(out["atUpper"])) and eq(a.at_both, mask(out["atBoth"])))
    chk("bounds_dual", eq(it.bounds_dual, out["d"]))
    chk("stat_res", it.stat_res == out["stat"])
    chk("locally_infeasible", bool(it.locally_infeasible(params.opt_tol, params.local_infeas_tol)) == out["linf"])
    orig = Iterate(prob, params, np.array(c["xhat"], dtype=float), np.array([float(c["yhat"])]))
    func = ImplicitFunc(prob, orig, dt)
    act = func.compute_active_set(it, rho)
    chk("compute_active_set", eq(act, mask(out["act"])))
    val = func.value_at(it, rho)
    chk("value_at", eq(val, [v / lamb for v in out["FLx"]] + [out["FLy"] / lamb]))
    p = func.projection_initial(it, rho)
    chk("project", eq(func.project(p, act), [v / lamb for v in out["proj"]]))
    for As, M in out["DL"].items():
        As = frozenset(As) if not isinstance(As, frozenset) else As
        d = func.deriv_at(it, rho, active_set=mask(As)).toarray()
        chk("deriv_at", eq(d, [[v / lamb for v in row] for row in M]))
    # the residual for a GIVEN active set A: x - P_A(xhat - dt grad L), P_A clips exactly the components in A (identity on the
    # others, even if they lie outside the box); reference computed densely from the exact gradient of the state
    lbv = np.array([fv(v) for v in c["box"]["lb"]])
    ubv = np.array([fv(v) for v in c["box"]["ub"]])
    pref = np.array(c["xhat"], dtype=float) - dt * np.array(out["Lx"], dtype=float)
    for As in out["DL"].keys():
        As = frozenset(As) if not isinstance(As, frozenset) else As
        m_ = mask(As)
        xref = x - np.where(m_, np.clip(pref, lbv, ubv), pref)
        got = func.value_at(it, rho, active_set=m_)
        chk("value_at.given_active_set", eq(got[:2], xref) and got[2] == out["FLy"] / lamb)
    sfunc = ScaledImplicitFunc(prob, orig, dt)
    chk("scaled_value_at", eq(sfunc.value_at(it, rho), list(out["FLx"]) + [-out["FLy"]]))
    chk("scaled_active_set", eq(sfunc.compute_active_set(it, rho), mask(out["act"])))
    # the scaled function's generalised Jacobian is, by its documented definition, lamb times the unscaled one: exactly DL
    for As, M in out["DL"].items():
        As = frozenset(As) if not isinstance(As, frozenset) else As
        d = sfunc.deriv_at(it, rho, active_set=mask(As)).toarray()
        chk("scaled_deriv_at", eq(d, [list(row) for row in M]))
    # the functions are functions of (point, multiplier, rho): the SAME function and iterate objects asked with another rho must
    # answer like fresh objects do (those answers are validated against the spec in the states of that rho)
    rho2 = 3.0 - rho if rho in (1.0, 2.0) else 2.0 * rho
    it2 = Iterate(prob, params, x, y)
    orig2 = Iterate(prob, params, np.array(c["xhat"], dtype=float), np.array([float(c["yhat"])]))
    f2, s2 = ImplicitFunc(prob, orig2, dt), ScaledImplicitFunc(prob, orig2, dt)
    chk("otherrho.compute_active_set", eq(func.compute_active_set(it, rho2), f2.compute_active_set(it2, rho2)))
    chk("otherrho.value_at", eq(func.value_at(it, rho2), f2.value_at(it2, rho2)))
    chk("otherrho.deriv_at", eq(func.deriv_at(it, rho2).toarray(), f2.deriv_at(it2, rho2).toarray()))
    chk("otherrho.scaled_value_at", eq(sfunc.value_at(it, rho2), s2.value_at(it2, rho2)))
    chk("otherrho.scaled_deriv_at", eq(sfunc.deriv_at(it, rho2).toarray(), s2.deriv_at(it2, rho2).toarray()))
    # evaluating derivatives must not disturb the point: everything asked again (cached Jacobian / Hessian included)
    chk("reeval.aug_lag_deriv_x", eq(it.aug_lag_deriv_x(rho), out["Lx"]))
    chk("reeval.aug_lag_deriv_xx", eq(it.aug_lag_deriv_xx(rho).toarray(), [list(r) for r in out["Lxx"]]))
    chk("reeval.value_at", eq(func.value_at(it, rho), [v / lamb for v in out["FLx"]] + [out["FLy"] / lamb]))
    for As, M in out["DL"].items():
        As = frozenset(As) if not isinstance(As, frozenset) else As
        chk("reeval.deriv_at", eq(func.deriv_at(it, rho, active_set=mask(As)).toarray(), [[v / lamb for v in row] for row in M]))
    return errs


def main():
    chk = Check("C13")
    states = chk.mc_dump("Residuals_full.cfg" if chk.thorough else "Residuals_q.cfg", "ResidualsMC.tla")
    if states is not None:
        fmts = ("coo", "csr", "csc")
        for si, st in enumerate(states):
            c, out = st["c"], st["out"]
            try:
                errs = replay(c, out, fmts[si % 3])
            except Exception as e:  # noqa
                errs = ["exception:" + type(e).__name__ + ":" + str(e)[:60]]
            chk.case(si)
            if len(chk.samples) < 2 and si % 401 == 7:
                chk.samples.append({"case": _plain(c), "expected": {k: _plain(v) for k, v in out.items() if k != "DL"}})
            for e in set(errs):
                chk.kernel_violation(("residuals." + e, fmts[si % 3]), {"case": _plain(c)})
        chk.traces += chk.cases
    chk.assumptions += ["exactness domain: integer data and points, lamb, rho in {1,2}: every float operation of iterate.py / "
                        "implicit_func.py is exact, and the code's tolerances (active_tol, +-1e-8 margins) coincide with exact comparisons"]
    return chk.finish(rule="TLC enumerates data x points (inside/on/outside bounds) x multipliers x previous iterates x lamb x rho x boxes and "
                           "proves gradient/Hessian/Jacobian = exact 5-point derivatives, projection and normal-cone characterisations; each "
                           "case (all 4 active sets) is replayed on Iterate, ActiveSet, ImplicitFunc, ScaledImplicitFunc, keep_rows and "
                           "compared exactly", extra_cov={"exhaustive": True})
