#!/usr/bin/env python3
"""Writes MANIFEST.json from the table below (one source of truth)."""
import json
import os

ROOT = os.path.dirname(os.path.dirname(os.path.abspath(__file__)))
TRUST = ("trusted base: TLC, the recorder/projector (harness/record.py, project.py: floats -> order-isomorphic ranks, arrays -> "
         "interned ids), the independent numpy oracle (harness/oracle.py); MC results hold within the stated bounds")
CHECKS = {
    "C02": ("model_checking", "6 C02", "TLC on the solve state machine (every limit value, deadline position and outcome sequence within bounds; P clauses are checked, never assumed) + trace validation of real solves on infeasible / unbounded families with limits and virtual deadlines; justification classes from an independent oracle", "TLA+ model checking + trace validation against GradFlow.tla"),
    "C05": ("model_checking", "6 C05", "every callback call of every traced solve is an Eval event with an in-box flag computed at user level against the user's bounds; clauses eval.inbox / accept.inbox / notify.inbox / return.inbox of GradFlow.tla are evaluated by TLC on each event", "trace validation against GradFlow.tla (+ MC of the loop)"),
    "C06": ("model_checking", "6 C06", "terminal kinds are an invariant of the model (C06_TerminalKinds); TauRule.tla (totality of the active-set rules) replayed on compute_tau; every Raise of a randomised configuration-product sweep is classified into the four deliberate kinds or Internal:<type>@<frame>; Return carries finiteness", "TLA+ model checking + trace validation of a configuration-product sweep"),
    "C07": ("fault_enumeration", "6 C07", "for baseline runs every position in the sequence of callback evaluations and of factorisations/solves gets one run with a transient failure there (quick: first 14 + stride), plus region-persistent failures; each trace is validated by TLC against the fault clauses of GradFlow.tla", "fault enumeration + trace validation against GradFlow.tla"),
    "C08": ("model_checking", "6 C08", "2-safety by self-composition: reference run and limited run share the oracle memo in one TLC model (every limit, every deadline position incl. inner Newton reads); real tuples (unlimited, limited) are validated together with shared interning, equal trial queries must give bit-identical answers; witness config shows the pre-fix behaviour violates", "self-composition model checking + twin trace validation"),
    "C09": ("model_checking", "6 C09", "self-composition MC (observers off vs any observer subset and display pattern) + validated tuples of real solves differing only in log level, display interval/clock pattern, callbacks, collect_path, report_rcond; compared bit-exactly via interned ids", "self-composition model checking + twin trace validation"),
    "C10": ("model_checking", "6 C10", "self-composition MC (first solve, second solve on the same object, fresh solve) + validated sequences of real solves in one process (reused solver after a different / faulted solve vs fresh solver)", "self-composition model checking + twin trace validation"),
    "C11": ("model_checking", "6 C11", "every Eval/Return/Raise event carries the set of caller-owned objects (x0, y0, bounds, weights, every object returned by a callback) whose value digest changed; twin runs fresh vs memoised return policy must be bit-identical", "trace validation (caller-owned digests) + twin trace validation"),
    "C12": ("model_checking", "6 C12", "counters, current point, path and model times are never logged: the spec computes them from the action sequence (Commit is a silent spec step) and the Return record must agree; MC proves the counter invariants over all outcome sequences incl. filter vetoes", "TLA+ model checking + trace validation (unlogged variables inferred by the spec)"),
    "C15": ("model_checking", "6 C15", "MC of the four controllers over all accept/reject/fail sequences with lamb_max within reach; traced solves with injected failures and tiny lamb_max; exact.solves uses an independently computed implicit-Euler residual; Controllers.tla (decision logic) replayed case by case on the real controller classes; TLC -simulate behaviours replayed through the real Solver.solve (loop driver)", "TLA+ model checking + trace validation"),
    "C16": ("model_checking", "6 C16", "MC over all six policies x multiplier-norm levels x filter histories; traced solves with all policies and starting multipliers 1e-8..1e8; rho used by each trial, solver rho at each callback and policy rho before/after each update are events", "TLA+ model checking + trace validation"),
    "C04": ("model_checking", "6 C04", "TransformFn.tla defines the internal problem from the change of variables and slack/offset embedding in exact integer arithmetic; TLC proves chain rule (exact central differences), round trips, start slack = clip, residual correspondence and zero padding over weights x row-kind pairs x points x multipliers; every case is replayed bit-for-bit through Transformation / evaluator in COO/CSR/CSC, with further points inside and outside the variable bounds", "kernel TLA+ spec (exhaustive on an exact domain) + bit-exact conformance replay"),
    "C13": ("model_checking", "6 C13", "Residuals.tla defines augmented Lagrangian, residuals, active sets, implicit-Euler function and generalised Jacobian; TLC proves they are each other's exact derivatives (5-point stencils) and the projection / normal-cone characterisations; every case (all active sets) is replayed exactly on Iterate, ActiveSet, ImplicitFunc, ScaledImplicitFunc, keep_rows", "kernel TLA+ spec + exact conformance replay"),
    "C14": ("model_checking", "6 C14", "NewtonAlg.tla proves by Cramer's rule on integer data that the block-eliminated scaled formulation with back-substitution solves the standard semismooth Newton system for every active set (and exhibits the disagreement of the H(y) variant as a witness); each case is replayed through newton_method().step for 4 step solvers x {LU, GMRES, MINRES} x {Full, Simplified, ActiveSet} against the exact rational step, also with reused solver objects and after steps for other penalties on the same iterates", "kernel TLA+ spec (exact rational algebra) + conformance replay with solver tolerances"),
    "C18": ("model_checking", "6 C18", "Filter.tla is finite on a KxK grid, so TLC covers all insertion histories of any length; FilterInd.tla: Apalache establishes the antichain property as an inductive invariant over unbounded integers; every reachable state is one edge (before, pair, verdict, after) replayed on both filter classes under three order-preserving rank->float maps and both working precisions; end-to-end filter-policy traces are validated against the same operators in GradFlow.tla", "TLA+ model checking (all histories on a grid) + full transition-coverage replay + trace validation"),
    "C20": ("model_checking", "6 C20", "ScalingFn.tla transcribes frexp, row maxima of the column-prescaled Jacobian and the square-root column-sum equilibration in exact integer arithmetic; TLC checks the [1,2) / [1,4) normalisation over the whole domain (entries below one included); every case is replayed through scale.py and the predicate is evaluated with Fractions on the code's own weights", "kernel TLA+ spec (exhaustive on an exact domain) + exact conformance replay"),
    "C01": ("model_checking", "6 C01", "KKTAbs.tla: TLC proves InternalKKT => UserKKT for all internal class combinations (which user-level clauses a Return may be held to); every Optimal Return of a sweep over scalings x row kinds x solver configurations carries oracle classes of the user's problem at (x,y,d) and TLC evaluates UserKKT on it; IntegrationLoop.tla (loop, free set, events, penalty) + the same validation for IntegrationSolver's recorded runs; FlowFilter.tla (free set / event triggers / deciding event of the flow-integration solver) replayed case by case on the real code", "TLA+ model checking (design theorem) + trace validation of every Optimal return"),
    "C03": ("exploration", "6 C03", "seeded well-posed strictly convex QPs (hypotheses checked numerically per instance) under the default and the listed single-parameter variants must return Optimal within 2000 iterations; convergence is not decidable by a finite-state model, so this is exploration of observed executions (each also trace-validated against GradFlow.tla)", "generator-driven exploration + trace validation (clause wellposed.solved)"),
    "C17": ("model_checking", "6 C17", "LinSolve.tla owns the exact facts (determinant, structural singularity, Cramer solution; sanity model-checked) and the outcome relation; all 625 integer 2x2 and 538 structured 3x3 matrices x rhs x trans x solver x guess x format are executed on the real solvers and each observed outcome is validated by TLC (residual computed in integers); larger random systems (right-hand sides of magnitude 1e-5 .. 1e7, cold and warm starts) by a float oracle (exploration-grade); every factorisation / solve inside a sweep of real solves is a Lin event of GradFlow.tla carrying an independent residual class (clause lin.converged)", "kernel TLA+ spec + outcome validation by TLC"),
    "C19": ("model_checking", "6 C19", "DerivCheck.tla: check order and column loop explored for every set of <= 2 wrong entries x magnitude class (two numeric realisations each) x flag; each final verdict replayed through Solver.solve (which check raised, column, rows); twin real solves with/without the check must be bit-identical", "TLA+ model checking of the decision logic + conformance replay + twin trace validation"),
}
PENDING = {
    "C01": "check under construction (KKTAbs.tla is model-checked and its UserKKT predicate is already evaluated on every Optimal Return; the dedicated sweep and the integration solver are pending)",
    "C03": "check under construction", "C04": "kernel spec under construction", "C13": "kernel spec under construction",
    "C14": "kernel spec under construction", "C17": "kernel spec under construction", "C18": "kernel spec under construction",
    "C19": "kernel spec under construction", "C20": "kernel spec under construction",
}


def main():
    checks = []
    for pid in sorted(CHECKS):
        cat, ref, text, tech = CHECKS[pid]
        checks.append({
            "property_id": pid,
            "quick_cmd": "bin/check %s --tier quick" % pid,
            "thorough_cmd": "bin/check %s --tier thorough" % pid,
            "evidence_file": "evidence/%s.json" % pid,
            "replay_cmd_template": "bin/check %s --replay {path}" % pid,
            "engine": "gradflow-tla",
            "level_claimed": {"category": cat, "text": text, "design_ref": ref},
            "level_note": TRUST,
            "technique": tech,
        })
    m = {
        "version": 1,
        "setup_cmd": "bin/setup",
        "hooks": {"guard": "PYGRADFLOW_VERIF",
                  "enable": "no source hooks are needed: checks import /repo's working tree (PYTHONPATH=/repo) in a fresh process and record at public call boundaries (DESIGN 4.1); the guard name is reserved and unused",
                  "baseline_off_cmd": "cd /repo && /venv/bin/python -m pytest -ra -q -p no:cacheprovider --timeout=900 --continue-on-collection-errors",
                  "source_commits": [], "add_only": True},
        "engines": [{"name": "gradflow-tla", "path": "spec/GradFlow.tla", "serves_properties": sorted(CHECKS),
                     "kind_free_text": "explicit TLA+ specification of Solver.solve (MCGradFlow.tla: model checking; GradFlowTrace.tla: trace validation of recorded real executions) + kernel specifications"}],
        "checks": checks,
        "not_applicable": [{"property_id": p, "reason": r} for p, r in sorted(PENDING.items()) if p not in CHECKS],
        "notes": "model-based verification with an explicit TLA+ specification; see DESIGN.md. Exit codes: 0 held, 1 VIOLATION, 2 machinery failure.",
    }
    json.dump(m, open(os.path.join(ROOT, "MANIFEST.json"), "w"), indent=1)


if __name__ == "__main__":
    main()
