"""spec -> code for the step-size controllers: every case of spec/Controllers.tla is replayed on the real controller
classes with a scripted Newton method, residual function and timer."""
import numpy as np
import scipy.sparse as sps

import pygradflow.step.distance_ratio_control as dr_mod
import pygradflow.step.exact_control as ex_mod
import pygradflow.step.residuum_ratio_control as rr_mod
from pygradflow.iterate import Iterate
from pygradflow.params import Params, StepControlType
from pygradflow.problem import Problem
from pygradflow.step.step_control import step_controller

CTL = {"Exact": StepControlType.Exact, "Fixed": StepControlType.Fixed, "ResRatio": StepControlType.ResiduumRatio,
       "DistRatio": StepControlType.DistanceRatio}


class Stub(Problem):
    def __init__(self):
        super().__init__(np.array([-1e9]), np.array([1e9]), num_cons=0)

    def obj(self, x):
        return 0.0

    def obj_grad(self, x):
        return np.zeros(1)

    def lag_hess(self, x, y):
        return sps.coo_matrix(np.ones((1, 1)))


class FakeStep:
    def __init__(self, iterate, diff):
        self.iterate = iterate
        self.diff = diff
        self.active_set = np.array([False])
        self.rcond = None


class FakeTimer:
    def __init__(self, script):
        self.script = list(script)
        self.k = 0

    def reached_time_limit(self):
        v = self.script[self.k] if self.k < len(self.script) else False
        self.k += 1
        return v


def run_case(c):
    """Returns the observed verdict dict for one Controllers.tla case."""
    obs = list(c["obs"])
    lamb = float(2.0 ** c["lamb"])
    params = Params(step_control_type=CTL[c["ctl"]], lamb_init=2.0, lamb_min=1.0, lamb_max=2.0 ** 20, lamb_inc=2.0, lamb_red=0.5)
    prob = Stub()
    it0 = Iterate(prob, params, np.array([0.0]), np.zeros(0))
    its = {0: it0}
    vals = {0: 1.0}
    diffs = {}
    for k, o in enumerate(obs, start=1):
        its[k] = Iterate(prob, params, np.array([float(k)]), np.zeros(0))
        factor = 0.25 if o["goodRate"] else 0.95
        vals[k] = 1e-9 if o["resLe"] else vals[k - 1] * factor if c["ctl"] != "ResRatio" else vals[0] * factor
        if vals[k] <= 1e-8 and not o["resLe"]:
            vals[k] = 1e-7
        diffs[k] = 0.0 if o["diffZero"] else (1.0 if k == 1 else (0.25 if o["goodRate"] else 0.95))
    taken = [0]

    class FakeFunc:
        def __init__(self, problem, iterate, dt):
            pass

        def value_at(self, iterate, rho, active_set=None):
            return np.array([vals[int(iterate.x[0])]])

    def newton_steps(orig, rho, dt):
        k = 0
        while True:
            k += 1
            taken[0] = k
            yield FakeStep(its[k] if k in its else its[max(its)], diffs.get(k, 0.5))

    saved = (ex_mod.ImplicitFunc, dr_mod.ImplicitFunc, rr_mod.ImplicitFunc)
    ex_mod.ImplicitFunc = dr_mod.ImplicitFunc = rr_mod.ImplicitFunc = FakeFunc
    try:
        ctl = step_controller(prob, params)
        ctl.newton_steps = newton_steps
        if c["ctl"] == "Exact":
            ctl.max_num_it = len(obs)
        res = ctl.compute_step(it0, 1.0, 1.0 / lamb, False, FakeTimer([o["dl"] for o in obs]))
    finally:
        ex_mod.ImplicitFunc, dr_mod.ImplicitFunc, rr_mod.ImplicitFunc = saved
    returned = int(res.iterate.x[0])
    return {"accepted": bool(res.accepted), "returned": returned, "steps": taken[0], "lamb": float(res.lamb), "lamb_used": lamb}


def expected_lamb(rule, lamb):
    return {"dbl": 2.0 * lamb, "half": 0.5 * lamb, "red": max(0.5 * lamb, 1.0), "inc": 2.0 * lamb, "same": lamb, "init": 2.0,
            "keep": lamb}.get(rule)
