SPECIFICATION Spec
CONSTANTS
  MaxVal = 3
  MaxK = 3
INVARIANT C15_RejectShrinks
INVARIANT C15_ExactAcceptSolves
INVARIANT C15_DeadlineNeverAccepted
INVARIANT C15_AcceptedReturnsLastStep
INVARIANT C15_FixedAlwaysAccepts
CHECK_DEADLOCK FALSE
