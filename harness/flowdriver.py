"""spec -> code for the flow-integration kernel (spec/FlowFilter.tla).

Every case TLC enumerates is realised exactly on the real code:

  filter cases   -> IntegrationSolver.create_filter  and  RestrictedFlow.create_event_triggers
  event cases    -> IntegrationSolver.create_events + handle_events

Realisation (all data small integers / halves, so signs are exact):  n variables, n constraints c(x) = x - b with
Jacobian I, zero objective, rho = 1.  Then  dx = -(rho (x - b) + y)  and  ddx = (rho J^T J) grad L - J^T c =
-rho dx - (x - b), so b = x + ddx + rho dx and y = -dx - rho (x - b) give every variable the prescribed signs.
"""
import numpy as np
import scipy.sparse as sps

from pygradflow.eval import SimpleEvaluator
from pygradflow.integration.flow import Flow
from pygradflow.integration.integration_solver import IntegrationSolver
from pygradflow.integration.problem_switches import SwitchTrigger, TriggerType
from pygradflow.integration.restricted_flow import RestrictedFlow
from pygradflow.params import Params
from pygradflow.problem import Problem


class ShiftProblem(Problem):
    """min 0  s.t.  x - b = 0,  lb <= x <= ub"""

    def __init__(self, lb, ub, b):
        n = len(b)
        self.b = np.array(b, dtype=float)
        super().__init__(np.array(lb, dtype=float), np.array(ub, dtype=float), cons_lb=np.zeros(n), cons_ub=np.zeros(n))

    def obj(self, x):
        return 0.0

    def obj_grad(self, x):
        return np.zeros_like(x)

    def cons(self, x):
        return x - self.b

    def cons_jac(self, x):
        return sps.identity(len(self.b), format="coo")

    def lag_hess(self, x, y):
        n = len(self.b)
        return sps.coo_matrix((n, n))


def _solver(problem, params):
    s = IntegrationSolver(problem, params)
    s.problem = problem
    s.evaluator = SimpleEvaluator(problem, params)
    s.flow = Flow(problem, params, s.evaluator)
    s.rho = 1.0
    return s


def _place(p):
    pos = p["pos"]
    if pos == "both":
        return 0.5, 0.5, 0.5
    lb = -1.0 if p["lbfin"] else -np.inf
    ub = 1.0 if p["ubfin"] else np.inf
    x = {"in": 0.0, "lb": -1.0, "ub": 1.0}[pos]
    return lb, ub, x


def realise(case):
    """case: sequence of records [p, dx, ddx] -> (solver, z, rho)"""
    lb, ub, x = zip(*[_place(v["p"]) for v in case])
    x = np.array(x)
    ddx = np.array([float(v["ddx"]) for v in case])
    dx = np.array([float(v["dx"]) for v in case])
    rho = 1.0
    b = x + ddx + rho * dx      # ddx = (rho J^T J) grad L - J^T c = -rho dx - (x - b)
    y = -dx - rho * (x - b)
    prob = ShiftProblem(lb, ub, b)
    s = _solver(prob, Params())
    z = np.concatenate((x, y))
    # the construction is self-checking: a wrong realisation is a machinery failure, not a finding
    assert (np.sign(s.flow.neg_aug_lag_deriv_x(z, rho)) == dx).all(), "realisation: dx"
    return s, z, rho


def run_filter_case(case, answer, trig):
    """Returns None if the real code agrees with the spec's answer, else a description."""
    n = len(case)
    s, z, rho = realise(case)
    assert (np.sign(s.flow.rhs_deriv_x(z, rho)) == np.array([float(v["ddx"]) for v in case])).all(), "realisation: ddx"
    try:
        filt = s.create_filter(z, rho)
        got = {"kind": "ok", "free": sorted(int(j) + 1 for j in np.nonzero(filt)[0])}
    except AssertionError:
        raise
    except Exception as e:  # noqa
        got = {"kind": "raise" if "Degenerate" in str(e) else "error:" + type(e).__name__, "free": []}
        filt = None
    want = {"kind": answer["kind"], "free": sorted(answer["free"])}
    if got != want:
        # A disagreement is a *violation* only where the statement of the flow decides the answer: no lb = ub variable
        # with vanishing direction (BothQuirk is the code's own choice), the spec does not raise, and the observed set
        # breaks the rule for some variable (one-sided position: pinned iff the flow points outward, to second order).
        quirk = any(v["p"]["pos"] == "both" and v["dx"] == 0 for v in case)
        level = "M"
        if not quirk and answer["kind"] == "ok":
            if got["kind"] != "ok":
                level = "P"
            else:
                for j, v in enumerate(case, start=1):
                    pos, dx, ddx = v["p"]["pos"], v["dx"], v["ddx"]
                    free = j in got["free"]
                    if pos == "in":
                        ok = free
                    elif pos == "both":
                        ok = True if dx == 0 else (not free)
                    else:
                        out = (dx < 0 or (dx == 0 and ddx < 0)) if pos == "lb" else (dx > 0 or (dx == 0 and ddx > 0))
                        ok = free != out
                    if not ok:
                        level = "P"
        return {"what": "create_filter", "level": level, "expected": want, "observed": got}
    if filt is None:
        return None
    if filt.dtype != bool or filt.shape != (n,):
        return {"what": "create_filter.shape", "level": "P", "observed": [str(filt.dtype), list(filt.shape)]}
    rf = RestrictedFlow(s.flow, filt)
    evs = rf.create_event_triggers(z, rho)
    got_t = [[e.type.name, (int(e.index) + 1) if hasattr(e, "index") else 0,
              int(getattr(e, "direction", 0)) if e.type.name in ("LB", "UB", "GRAD_FIXED") else 0] for e in evs]
    want_t = [list(t) for t in trig]
    if sorted(got_t) != sorted(want_t):
        return {"what": "create_event_triggers", "level": "P", "expected": want_t, "observed": got_t}
    if not all(getattr(e, "terminal", False) is True for e in evs):
        return {"what": "create_event_triggers.terminal", "level": "P", "observed": [getattr(e, "terminal", None) for e in evs]}
    if got_t != want_t:      # the order of the trigger list has no meaning for the flow
        return {"what": "create_event_triggers.order", "level": "M", "expected": want_t, "observed": got_t}
    # global triggers watch what the loop tests: the converged trigger vanishes exactly at residuum = opt_tol
    return None


# ---- handle_events -------------------------------------------------------------------------------------------

_EV = {
    #           x1    x2    dx1   dx2   type
    "LB":        (-1.0, -1.0, -1.0, -1.0, TriggerType.LB, 0),
    "UB":        (1.0, -1.0, 1.0, -1.0, TriggerType.UB, 0),
    "GRAD_LB":   (0.5, -1.0, 1.0, 1.0, TriggerType.GRAD_FIXED, 1),
    "GRAD_UB":   (0.5, 1.0, 1.0, -1.0, TriggerType.GRAD_FIXED, 1),
    "UNB_FEAS":  (0.0, 0.0, 1.0, 1.0, TriggerType.UNBOUNDED, None),
    "UNB_INFEAS": (0.5, 0.0, 1.0, 1.0, TriggerType.UNBOUNDED, None),
    "PENALTY":   (0.5, -1.0, 1.0, -1.0, TriggerType.PENALTY, None),
    "CONVERGED": (0.5, -1.0, 1.0, -1.0, TriggerType.CONVERGED, None),
}


class _IvpResult:
    def __init__(self, t_events, y_events):
        self.t_events = t_events
        self.y_events = y_events


def run_event_case(seq, answer):
    prob = ShiftProblem([-1.0, -1.0], [1.0, 1.0], [0.0, 0.0])
    s = _solver(prob, Params())
    rho = 1.0
    filt = np.array([True, False])
    rf = RestrictedFlow(s.flow, filt)
    triggers, t_events, y_events = [], [], []
    # triggers are listed in reverse time order so that the time sort of create_events matters
    for k in reversed(range(len(seq))):
        x1, x2, dx1, dx2, ttype, idx = _EV[seq[k]]
        x = np.array([x1, x2])
        y = -np.array([dx1, dx2]) - rho * (x - prob.b)
        z = np.concatenate((x, y))

        def trig(t, zz):
            return 0.0

        trig.type = ttype
        if idx is not None:
            trig.index = idx
        triggers.append(trig)
        t_events.append(np.array([float(k + 1)]))
        y_events.append(np.array([z]))
    events = s.create_events(_IvpResult(t_events, y_events), triggers)
    if [e.time for e in events] != sorted(e.time for e in events):
        return {"what": "create_events.order", "level": "P", "observed": [e.time for e in events]}
    assert all(isinstance(e, SwitchTrigger) for e in events)
    res = s.handle_events(events, rf, rho)
    if res is None:
        got = {"kind": "none", "flip": 0, "at": 0}
    else:
        flip = 0
        if res.type.name == "FILTER_CHANGED":
            diff = np.nonzero(res.filter != filt)[0]
            flip = int(diff[0]) + 1 if len(diff) == 1 else -len(diff)
        got = {"kind": res.type.name, "flip": flip, "at": int(round(res.t))}
        if res.type.name == "FILTER_CHANGED" and (filt != np.array([True, False])).any():
            return {"what": "handle_events.mutates.filter", "level": "P", "observed": filt.tolist()}
    want = {"kind": answer["kind"], "flip": answer["flip"], "at": answer["at"]}
    if got != want:
        return {"what": "handle_events", "level": "P", "case": list(seq), "expected": want, "observed": got}
    return None


def run_state(st):
    if st["what"] == "filter":
        return run_filter_case(list(st["case"]), st["answer"], list(st["trig"]))
    return run_event_case(list(st["case"]), st["answer"])
