------------------------------ MODULE LinSolve ------------------------------
(***************************************************************************)
(* C17: protocol and correctness oracle of the linear solvers.             *)
(* A case is an integer matrix A (2x2 or 3x3, entries -2..2), a right-hand *)
(* side b, a transposition flag, a solver type and an initial-guess mode.  *)
(* The spec owns the exact facts (determinant, structural singularity,     *)
(* Cramer solution) and the outcome relation OutcomeOK(case, obs) that the *)
(* property states; obs is what the real solver did (raised what / the     *)
(* returned vector as round(x * 2^SC) integers).  The residual of the      *)
(* returned vector is computed here, in integers.                          *)
(***************************************************************************)
EXTENDS Integers, Sequences, FiniteSets, TLC

SC == 16
N(A) == Len(A)
Tp(A) == [i \in 1..N(A) |-> [j \in 1..N(A) |-> A[j][i]]]
Det2(A) == A[1][1] * A[2][2] - A[1][2] * A[2][1]
Det3(A) == A[1][1] * (A[2][2] * A[3][3] - A[2][3] * A[3][2])
         - A[1][2] * (A[2][1] * A[3][3] - A[2][3] * A[3][1])
         + A[1][3] * (A[2][1] * A[3][2] - A[2][2] * A[3][1])
Det(A) == IF N(A) = 2 THEN Det2(A) ELSE Det3(A)
Perms(n) == IF n = 2 THEN {<<1, 2>>, <<2, 1>>}
            ELSE {<<1, 2, 3>>, <<1, 3, 2>>, <<2, 1, 3>>, <<2, 3, 1>>, <<3, 1, 2>>, <<3, 2, 1>>}
(* no transversal of non-zeros: singular for every choice of values on the pattern *)
StructSingular(A) == ~(\E p \in Perms(N(A)) : \A i \in 1..N(A) : A[i][p[i]] # 0)
Symmetric(A) == A = Tp(A)
ReplCol(A, k, v) == [i \in 1..N(A) |-> [j \in 1..N(A) |-> IF j = k THEN v[i] ELSE A[i][j]]]
(* Cramer: x_k = CramerNum[k] / Det *)
CramerNum(A, b) == [k \in 1..N(A) |-> Det(ReplCol(A, k, b))]
Abs(v) == IF v < 0 THEN -v ELSE v
RowDot(A, i, X) == IF N(A) = 2 THEN A[i][1] * X[1] + A[i][2] * X[2] ELSE A[i][1] * X[1] + A[i][2] * X[2] + A[i][3] * X[3]
(* max-norm of  M X - b 2^SC  for the returned fixed-point vector X *)
ResInf(M, b, X) == LET r == [i \in 1..N(M) |-> Abs(RowDot(M, i, X) - b[i] * (2 ^ SC))] IN
                   IF N(M) = 2 THEN (IF r[1] >= r[2] THEN r[1] ELSE r[2])
                   ELSE (IF r[1] >= r[2] /\ r[1] >= r[3] THEN r[1] ELSE IF r[2] >= r[3] THEN r[2] ELSE r[3])
Eff(cs) == IF cs.trans THEN Tp(cs.A) ELSE cs.A                 \* the system actually to be solved
(* tolerance in fixed-point units: rounding of X (n * max|a| / 2) plus the solver's stated tolerance *)
Tol(cs) == 4 + (IF cs.solver = "LU" THEN 0 ELSE 8)

OutcomeOK(cs, o) ==
  /\ o.raised \in {"none", "LinearSolverError"}                                 \* nothing else may escape
  /\ (cs.solver = "LU" /\ StructSingular(cs.A)) => (o.raised = "LinearSolverError" /\ o.stage = "construct")
  /\ (Det(cs.A) # 0) => (o.raised = "none")                                     \* nonsingular, tiny: every solver must succeed
  /\ (o.raised = "none") => (Det(cs.A) = 0 \/ (o.finite /\ ~o.big /\ ResInf(Eff(cs), cs.b, o.X) <= Tol(cs)))
  \* GMRES never hands back a non-finite or unconverged vector (singular systems included): it raises instead
  /\ (o.raised = "none" /\ cs.solver = "GMRES") => (o.finite /\ ~o.big /\ ResInf(Eff(cs), cs.b, o.X) <= Tol(cs))

(* ---- enumeration of cases and sanity of the oracle ---- *)
E == -2..2
M2 == {<<<<a, b>>, <<c, d>>>> : a \in E, b \in E, c \in E, d \in E}
KKT3 == {<<<<h1, h2, j1>>, <<h2, h3, j2>>, <<j1, j2, -dl>>>> : h1 \in {-1, 0, 2}, h2 \in {0, 1}, h3 \in {-1, 0, 2},
                                                              j1 \in {0, 1, -2}, j2 \in {0, 1, -2}, dl \in {0, 1}}
UNS3 == {<<<<a, b, 0>>, <<0, c, d>>, <<e, 0, f>>>> : a \in {0, 1, -2}, b \in {0, 2}, c \in {0, 1}, d \in {0, -1, 2}, e \in {0, 1}, f \in {0, 2, -1}}
VARIABLES A, facts
Init == A \in (M2 \cup KKT3 \cup UNS3)
        /\ facts = [det |-> Det(A), ssing |-> StructSingular(A), sym |-> Symmetric(A), n |-> N(A)]
Spec == Init /\ [][UNCHANGED <<A, facts>>]_<<A, facts>>
C17_StructSingularIsSingular == facts.ssing => facts.det = 0
C17_CramerSolves == \A b \in (IF N(A) = 2 THEN {<<1, -2>>, <<0, 1>>} ELSE {<<1, -2, 1>>, <<0, 0, 2>>}) :
                      \A i \in 1..N(A) : RowDot(A, i, CramerNum(A, b)) = b[i] * Det(A)
C17_TransposeSameDet == Det(Tp(A)) = Det(A) /\ StructSingular(Tp(A)) = StructSingular(A)
=============================================================================
