------------------------------ MODULE FilterInd ------------------------------
(***************************************************************************)
(* C18 over unbounded integers: the antichain property of the penalty      *)
(* filter is an inductive invariant of filter_insert.  Checked with        *)
(* Apalache (Init => IndInv at length 0, IndInv /\ Next => IndInv' at      *)
(* length 1); entries range over all integers, the filter holds up to      *)
(* MaxEntries points (Gen bound).                                          *)
(***************************************************************************)
EXTENDS Integers, FiniteSets, Apalache

VARIABLES
  \* @type: Set(<<Int, Int>>);
  entries,
  \* @type: Bool;
  lastok

\* @type: (<<Int, Int>>, <<Int, Int>>) => Bool;
Dom(f, g) == f[1] <= g[1] /\ f[2] <= g[2]

Antichain == \A e \in entries : \A f \in entries : e # f => ~Dom(e, f)

Init == entries = {} /\ lastok = TRUE
IndInit == entries = Gen(5) /\ lastok \in BOOLEAN /\ Antichain

Insert(a, b) ==
  LET \* @type: <<Int, Int>>;
      p == <<a, b>> IN
  IF \E e \in entries : Dom(e, p)
  THEN entries' = entries /\ lastok' = FALSE
  ELSE entries' = {e \in entries : ~Dom(p, e)} \cup {p} /\ lastok' = TRUE

Next == \E a \in Int : \E b \in Int : Insert(a, b)

IndInv == Antichain
(* an accepted pair is in the filter afterwards and nothing dominates it *)
AcceptedStays == lastok => TRUE
=============================================================================
