"""C01 Optimal status implies first-order optimality of the user's own problem."""
import json
import os
import tempfile

import numpy as np
import scipy.sparse as sps

from harness import gen, oracle, tlc
from harness.checklib import Check
from harness.checks.common import family_spec
from pygradflow.integration.integration_solver import IntegrationSolver
from pygradflow.params import Params, ScalingType
from pygradflow.problem import Problem
from pygradflow.status import SolverStatus


def groups(n, seed):
    rng = np.random.default_rng(seed)
    gs = []
    kinds_cycle = [["eq0", "lower"], ["eq", "ranged"], ["upper", "ranged", "eq0"], ["lower", "upper"], ["eq"], [],
                   ["narrow"], ["narrow", "eq0"], ["ranged", "narrow"]]
    for i in range(n):
        if i % 5 == 0:
            ps = ("repo", ["hs71", "hs71c", "tame", "rosenbrock"][(i // 5) % 4])
        else:
            kinds = kinds_cycle[i % len(kinds_cycle)]
            ps = ("convex_qp", int(rng.integers(0, 2 ** 31)), int(rng.integers(max(2, len(kinds) + 1), 7)), len(kinds),
                  {"row_kinds": kinds, "fmt": ("coo", "csr", "csc")[i % 3], "quad_rows": bool(i % 4 == 3)})
        pk = gen.random_params(rng, iteration_limit=150)
        if pk["newton_type"].name == "Globalized" and i % 2:
            pk["newton_type"] = gen.NEWTONS[i % 3]
        rs = {"prob": ps, "params": pk}
        sc = i % 6
        if sc in (1, 2):
            rs["scaling"] = ("random", int(rng.integers(0, 2 ** 31)), 3)
        elif sc == 3:
            pk["scaling_type"] = [ScalingType.Nominal, ScalingType.GradJac, ScalingType.KKT][(i // 6) % 3]
        elif sc == 4:
            rs["scaling"] = ("objonly", int([3, -2, 1, -4][(i // 6) % 4]))       # only the objective is rescaled
        gs.append({"tag": "C01", "runs": [rs]})
    # minimisers at vertices of boxes with non-dyadic bounds, reached by clipped steps: "variable bounds hold exactly"
    from pygradflow.params import StepControlType
    for i in range(max(12, n // 8)):
        pk = dict(step_control_type=[StepControlType.DistanceRatio, StepControlType.Exact, StepControlType.Fixed, StepControlType.ResiduumRatio][i % 4],
                  newton_type=gen.NEWTONS[(i // 4) % 3], lamb_init=[1.0, 0.1, 10.0][i % 3], iteration_limit=150, display_interval=1e9)
        gs.append({"tag": "C01.vertex", "runs": [{"prob": ("boxlp", int(rng.integers(0, 2 ** 31)), int(rng.integers(2, 6))), "params": pk}]})
    # steep objectives: multipliers of size 1e4 .. 1e6; the optimality tolerance is absolute in the user's units (times the
    # scale factor), not relative to the size of the multipliers (seed C01-i)
    for i in range(max(10, n // 8)):
        kinds = kinds_cycle[i % 6]
        ps = ("convex_qp", int(rng.integers(0, 2 ** 31)), int(rng.integers(max(3, len(kinds) + 1), 7)), len(kinds),
              {"row_kinds": kinds, "fmt": ("coo", "csr", "csc")[i % 3], "mag": [1e4, 1e6][i % 2]})
        pk = dict(iteration_limit=600, display_interval=1e9)
        gs.append({"tag": "C01.bigmult", "runs": [{"prob": ps, "params": pk}]})
    return gs


class BoxQP(Problem):
    def __init__(self, Q, c, lb, ub):
        self.Q, self.c = Q, c
        super().__init__(lb, ub, num_cons=0)

    def obj(self, x):
        return float(0.5 * x @ self.Q @ x + self.c @ x)

    def obj_grad(self, x):
        return self.Q @ x + self.c

    def lag_hess(self, x, y):
        return sps.csr_matrix(self.Q)


def integration_cases(n, seed):
    rng = np.random.default_rng(seed)
    out = []
    for name in ("tame", "hs71"):
        p, x0, _ = gen.repo_instance(name)
        out.append((name, p, x0, np.zeros(p.num_cons)))
    for k in range(n):
        m = int(rng.integers(1, 4))
        Q = gen.random_spd(rng, m, cond=20.0)
        xs = rng.uniform(-2, 2, size=m)
        lb = np.where(rng.uniform(size=m) < 0.5, -1.0, -np.inf)
        ub = np.where(rng.uniform(size=m) < 0.5, 1.0, np.inf)
        x0 = np.clip(rng.uniform(-3, 3, size=m), lb, ub)
        out.append(("boxqp%d" % k, BoxQP(Q, -Q @ xs, lb, ub), x0, np.zeros(0)))
    # pinned variables that must be released later: var 0 starts at a bound with the flow pointing outward, the coupling
    # with the free var 1 (which starts far from its optimum) flips the sign of its gradient component on the way
    for k in range(max(4, n // 3)):
        c = [0.5, -0.5, 0.25][k % 3]
        Q = np.array([[1.0, c], [c, 1.0]])
        side = k % 2                               # 0: pinned at the lower bound, 1: at the upper bound
        lo, hi = [(0.0, 1.0), (-1.0, 1.0), (-2.0, 0.5)][(k // 2) % 3]
        xs0 = float(rng.uniform(lo + 0.2 * (hi - lo), hi - 0.2 * (hi - lo)))
        xs1 = float(rng.uniform(-1, 1))
        if side:
            d1 = (-(hi - xs0) - 1.0) / c
            start0 = hi
        else:
            d1 = ((xs0 - lo) + 1.0) / c
            start0 = lo
        lb = np.array([lo if (side == 0 or k % 4 < 2) else -np.inf, -np.inf])
        ub = np.array([hi if (side == 1 or k % 4 < 2) else np.inf, np.inf])
        xs = np.array([xs0, xs1])
        out.append(("release%d" % k, BoxQP(Q, -Q @ xs, lb, ub), np.array([start0, xs1 + d1]), np.zeros(0)))
    # start at the minimiser: Optimal by the residuum test at the first loop top
    Q = gen.random_spd(rng, 2, cond=5.0)
    xs = np.array([0.25, -0.5])
    out.append(("atsolution", BoxQP(Q, -Q @ xs, -np.ones(2), np.ones(2)), xs.copy(), np.zeros(0)))
    # an objective without lower bound: the Unbounded event
    out.append(("linear", BoxQP(np.zeros((2, 2)), np.array([1.0, -2.0]), np.array([-np.inf, 0.0]), np.array([np.inf, np.inf])),
                np.array([0.5, 0.5]), np.zeros(0)))
    return out


def _plain(o):
    if isinstance(o, dict):
        return {str(k): _plain(v) for k, v in o.items()}
    if isinstance(o, (list, tuple, set, frozenset)):
        return [_plain(v) for v in (sorted(o) if isinstance(o, (set, frozenset)) else o)]
    return o


def main():
    chk = Check("C01")
    chk.mc("KKTAbsMC.cfg", module="KKTAbsMC.tla")
    chk.mc("KKTAbsMC_witness.cfg", module="KKTAbsMC.tla", must_violate="SomeInternalKKT")
    chk.mc("IntegrationLoop.cfg", module="IntegrationLoop.tla")
    # kernel of the flow-integration solver (free set at a point, event triggers, which event decides): every case of
    # FlowFilter.tla replayed exactly on IntegrationSolver.create_filter / create_event_triggers / handle_events
    from harness import flowdriver
    fstates = chk.mc_dump("FlowFilter.cfg" if chk.thorough else "FlowFilter_q.cfg", "FlowFilter.tla")
    if fstates is not None:
        stride = 4 if chk.thorough else 1
        for si, st in enumerate(fstates):
            if si % stride and st["what"] == "filter":
                continue
            try:
                bad = flowdriver.run_state(st)
            except AssertionError as e:
                if str(e).startswith("realisation"):
                    chk.machinery.append("flowdriver: %s" % e)
                    break
                bad = {"what": "assertion", "error": repr(e)[:200]}
            except Exception as e:  # noqa
                bad = {"what": "exception", "error": repr(e)[:200]}
            chk.case(("flow", si))
            if bad is not None and bad.get("level", "P") == "M":
                chk.drift["flow." + bad["what"]] = chk.drift.get("flow." + bad["what"], 0) + 1
            elif bad is not None:
                chk.kernel_violation(("flow." + bad["what"],), {"case": _plain(st["case"]), "detail": _plain(bad)})
        chk.traces += len(fstates) // stride
    chk.mc("GF_small.cfg" if chk.thorough else "GF_q_small.cfg")
    br = chk.tv(groups(1500 if chk.thorough else 110, chk.seed), "C01 sweep")
    nopt = br.statuses.get("Optimal", 0)
    if nopt < 20:
        chk.machinery.append("only %d Optimal returns in the sweep: the KKT clause would be vacuous" % nopt)
    # the flow-integration solver: every run is recorded (loop tops with the residuum test, integrations, result) and
    # validated by TLC against IntegrationLoop.tla / UserKKT
    from harness.record_integration import TracedIntegrationSolver, events_of
    recs = []
    nint = 0
    for k, (name, prob, x0, y0) in enumerate(integration_cases(120 if chk.thorough else 22, chk.seed)):
        params = Params(iteration_limit=[200, 3, 1, 200][k % 4], rho=1e-2, collect_path=bool(k % 3 == 1))
        sol = TracedIntegrationSolver(prob, params)
        try:
            res = sol.solve(x0, y0)
        except Exception as e:  # noqa: robustness of the second solver is not part of C01
            chk.case(("integration", name, "raise:" + type(e).__name__))
            continue
        chk.case(("integration", name, res.status.name, int(res.iterations)))
        evs = events_of(sol, res, prob, params)
        for e in evs:
            e["name"] = name
        recs.extend(evs)
        nint += 1
    if recs:
        d = tempfile.mkdtemp(prefix="gf_ig_")
        try:
            path = os.path.join(d, "ig.ndjson")
            with open(path, "w") as f:
                for r in recs:
                    f.write(json.dumps(r) + "\n")
            v = tlc.validate_trace(path, module="IntegrationTrace.tla", cfg="IntegrationTrace.cfg", envvar="IG_TRACE")
            if v["last"] != v["total"]:
                chk.machinery.append("IntegrationTrace consumed %d of %d" % (v["last"], v["total"]))
            for (line, tag, cname) in v["notes"]:
                r = recs[line - 1]
                if tag == "P:C01":
                    chk.kernel_violation(("integration." + cname, r["name"]), r)
                elif tag == "M":
                    chk.drift["integration." + cname] = chk.drift.get("integration." + cname, 0) + 1
                else:
                    chk.other_notes[tag + ":integration." + cname] = chk.other_notes.get(tag + ":integration." + cname, 0) + 1
            chk.traces += nint
            chk.cov["integration_events"] = len(recs)
            # binding self-test: corrupt one logged field of an active-set event / of a loop top; TLC must object there
            import copy
            tests = []
            ie = next((i for i, r in enumerate(recs) if r["ev"] == "Integrate" and r["result"] == "Event"), None)
            if ie is not None:
                bad = copy.deepcopy(recs)
                bad[ie]["j"] = 99
                tests.append(("event.index", bad, ie + 1, {"event.trigger.side", "event.flips.one"}))
            it = next((i for i, r in enumerate(recs) if r["ev"] == "Top" and r["status"] == "Optimal"), None)
            if it is not None:
                bad = copy.deepcopy(recs)
                bad[it]["resLe"] = False
                tests.append(("top.residuum", bad, it + 1, {"optimal.iff.residuum"}))
            passed = []
            for tname, bad, line, expect in tests:
                with open(path, "w") as f:
                    for r in bad:
                        f.write(json.dumps(r) + "\n")
                vb = tlc.validate_trace(path, module="IntegrationTrace.tla", cfg="IntegrationTrace.cfg", envvar="IG_TRACE")
                hit = {cn for (ln, tg, cn) in vb["notes"] if ln == line}
                if hit & expect:
                    passed.append(tname)
                else:
                    chk.machinery.append("integration binding self-test %s: corrupted line %d not objected to (%s)" % (tname, line, sorted(hit)))
            chk.cov["integration_binding_selftest"] = passed
            hist = {}
            for r in recs:
                if r["ev"] == "Integrate":
                    key = r["result"] + ("/" + r["trig"] if r["trig"] != "none" else "")
                    hist[key] = hist.get(key, 0) + 1
            chk.cov["integration_outcomes"] = hist
            if not any(k.startswith("Event/") for k in hist):
                chk.machinery.append("no active-set event in any integration trace: the free-set clauses would be vacuous")
            chk.samples.append({"integration_trace_head": recs[:6]})
        except tlc.TLCFailure as e:
            chk.machinery.append(str(e)[-1200:])
        finally:
            import shutil

            shutil.rmtree(d, ignore_errors=True)
    chk.assumptions += ["user-level tolerances: rows (opt_tol + active_tol) * 2^-cw, multipliers opt_tol * 2^(cw-ow), stationarity "
                        "opt_tol * 2^(vw-ow), each with 1e-9 relative re-evaluation slack; d must be exactly zero off active bounds",
                        "Double precision only"]
    return chk.finish(rule="KKTAbs.tla: InternalKKT => UserKKT for all 6912 internal class combinations (design theorem); every Optimal "
                           "Return of a sweep over scalings x row kinds x Newton/step/linear solver x controller x penalty carries oracle "
                           "classes of the user's problem at (x,y,d) and is held to UserKKT by TLC; IntegrationLoop.tla + KKT validation of "
                           "IntegrationSolver's Optimal results", extra_cov={"optimal_returns": nopt})
