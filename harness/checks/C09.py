"""C09 observation does not perturb the computation."""
import numpy as np

from harness.checklib import Check
from harness import gen
from harness.checks.common import family_spec


def groups(n, seed):
    rng = np.random.default_rng(seed)
    gs = []
    for i in range(n):
        ps = family_spec(i, rng)
        pk = gen.random_params(rng, iteration_limit=20)
        if i % 4 == 1:
            # objective NaN at some (rejected) trial points: the displayed row really evaluates there
            ps = ("logdomain", int(rng.integers(0, 2 ** 31)), int(rng.integers(1, 4)), i % 8 == 1)
            pk["lamb_init"] = float(10.0 ** rng.uniform(-3, -1))
        if i % 8 == 5:
            # exp overflows (inf) at over-long trial points: an evaluation failure the solve survives -- whatever is displayed
            ps = ("expgrowth", int(rng.integers(0, 2 ** 31)), int(rng.integers(1, 4)), i % 16 == 5)
            pk["lamb_init"] = float(10.0 ** rng.uniform(-4, -2))
            pk["iteration_limit"] = 30
        if i % 4 == 2:
            # iterative solver in single precision: the condition estimator's own solves may fail (must stay 'no estimate')
            from pygradflow.params import LinearSolverType, Precision, StepSolverType
            ps = ("repo", ["hs71", "hs71c", "tame"][(i // 4) % 3])
            pk.update(linear_solver_type=LinearSolverType.GMRES, precision=Precision.Single,
                      step_solver_type=[StepSolverType.Standard, StepSolverType.Asymmetric, StepSolverType.Extended][(i // 4) % 3],
                      iteration_limit=40)
        base = dict(pk, display_interval=1e9, collect_path=False, report_rcond=False)
        runs = [{"prob": ps, "params": base, "run": "A", "twin": "C09", "record_callback": False, "loglevel": "WARNING"}]
        variants = [
            dict(params=dict(base, display_interval=None), loglevel="DEBUG", observers=0),
            dict(params=dict(base, display_interval=None, collect_path=True), loglevel="INFO", observers=3),
            dict(params=dict(base, report_rcond=True, collect_path=True), loglevel="WARNING", observers=1),
            dict(params=dict(base, display_interval=0.1), loglevel="INFO", observers=0,
                 clock=("pattern", [0.0625, 0.03125, 0.25, 0.0, 0.125])),
            dict(params=dict(base, display_interval=0.0, report_rcond=True), loglevel="DEBUG", observers=2),
        ]
        pick = [variants[(i + k) % len(variants)] for k in range(3)]
        if i % 4 == 2:
            pick = [variants[2], variants[4], variants[0]]     # the two report_rcond variants first
        if i % 8 == 3:
            # the Hessian is undefined at the start point (everything else is fine there): whatever the solver does about
            # it, it must do so at every log level
            runs[0]["fault"] = ("atstart", "lag_hess", "nan")
        for rn, v in zip(("B", "C", "D"), pick):
            runs.append({"prob": ps, "params": v["params"], "run": rn, "twin": "C09", "loglevel": v["loglevel"],
                         "observers": v["observers"], "clock": v.get("clock"), "fault": runs[0].get("fault")})
        gs.append({"tag": "C09", "runs": runs})
    return gs


def main():
    chk = Check("C09")
    chk.mc("GF_twin_obs.cfg" if chk.thorough else "GF_q_twin_obs.cfg")
    chk.mc("GF_observers.cfg" if chk.thorough else "GF_q_observers.cfg")
    chk.tv(groups(500 if chk.thorough else 40, chk.seed), "C09 twins")
    return chk.finish(rule="self-composition MC (observers off vs any observer subset / display pattern, shared oracle) + TV of real "
                           "tuples differing only in log level, display interval / clock pattern, callbacks, collect_path, report_rcond; "
                           "trial answers and results compared by interned ids (bit-identical)")
