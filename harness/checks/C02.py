"""C02 non-optimal terminal statuses are justified by the returned point."""
import numpy as np

from harness.checklib import Check
from harness.checks.common import family_spec
from harness import gen


def groups(n, seed):
    rng = np.random.default_rng(seed)
    gs = []
    for i in range(n):
        fam = i % 4
        if fam == 0:
            ps = ("infeasible", int(rng.integers(0, 2 ** 31)), int(rng.integers(2, 5)))
        elif fam == 1:
            ps = ("unbounded", int(rng.integers(0, 2 ** 31)), int(rng.integers(2, 5)))
        else:
            ps = family_spec(i, rng)
        pk = gen.random_params(rng, obj_lower_limit=-float(10.0 ** rng.integers(2, 5)))
        lim = i % 3
        if lim == 0:
            pk["iteration_limit"] = int(rng.integers(0, 12))
        elif lim == 1:
            pk["iteration_limit"] = 80
            pk["time_limit"] = float(rng.integers(1, 60))       # virtual clock: one tick per read
        else:
            pk["iteration_limit"] = 120
        gs.append({"tag": "C02", "runs": [{"prob": ps, "params": pk}]})
    # starts outside the variable box whose objective value is already below the objective limit: "Unbounded" needs a
    # *feasible* point, and feasibility includes the variable bounds
    for i in range(max(6, n // 12)):
        nv = int(rng.integers(1, 4))
        ps = ("convex_qp", int(rng.integers(0, 2 ** 31)), nv, 0,
              {"var_kinds": [["boxed", "lower", "upper"][(i + j) % 3] for j in range(nv)], "fmt": ("coo", "csr", "csc")[i % 3]})
        pk = gen.random_params(rng, iteration_limit=60)
        gs.append({"tag": "C02.outside", "runs": [{"prob": ps, "params": pk, "x0_outside": float([0.5, 2.0, 7.0][i % 3]),
                                                   "obj_limit_at_start": [1.0, 0.0, 100.0][(i // 3) % 3]}]})
    # input validation switched off and an objective that is NaN at some point: a NaN is not "at or below the limit"
    for i in range(max(6, n // 15)):
        pk = gen.random_params(rng, iteration_limit=30, validate_input=False)
        ps = ("convex_qp", int(rng.integers(0, 2 ** 31)), int(rng.integers(2, 4)), int(rng.integers(0, 2)), {})
        gs.append({"tag": "C02.nanobj", "runs": [{"prob": ps, "params": pk, "fault": ("transient", "obj", int(i % 6), "nan")}]})
    # a feasible problem whose only row is a genuine range of tiny relative width: no status but Optimal / a limit is justified
    for i in range(max(3, n // 30)):
        pk = gen.random_params(rng, iteration_limit=60)
        gs.append({"tag": "C02.narrowrow", "runs": [{"prob": ("narrowrow", int(rng.integers(0, 2 ** 31)), [1000.0, 50.0, 2e5][i % 3]),
                                                     "params": pk}]})
    # infeasible over the box, started outside the box on the side the violation gradient points to: LocallyInfeasible needs
    # stationarity over the box at the returned point, and a point outside the box is not "at" a bound
    from harness import sweep
    k = 0
    while k < max(4, n // 20):
        s = int(rng.integers(0, 2 ** 31))
        prob, _, _ = sweep.build_problem(("infeasible", s, 3))
        if not (np.isfinite(prob.var_ub).all() and np.isfinite(prob.var_lb).all()):
            continue
        pk = gen.random_params(rng, iteration_limit=40)
        gs.append({"tag": "C02.outside.infeasible", "runs": [{"prob": ("infeasible", s, 3), "params": pk,
                                                              "x0_outside": [-0.1, -0.05, -0.2, 0.1][k % 4]}]})
        k += 1
    return gs


def main():
    chk = Check("C02")
    chk.mc("GF_small.cfg" if chk.thorough else "GF_q_small.cfg")
    chk.mc("GF_deadline.cfg" if chk.thorough else "GF_q_deadline.cfg")
    chk.mc("GF_live.cfg")     # liveness under weak fairness, no state constraint: a limited run terminates
    chk.tv(groups(1500 if chk.thorough else 120, chk.seed), "C02 sweep")
    chk.assumptions += ["justification classes are computed by an independent dense oracle on the internal (scaled, slack-embedded) "
                        "point reconstructed from the user's callbacks, tolerances opt_tol / local_infeas_tol with 1e-9 / 1e-6 relative slack",
                        "virtual clock: integer readings, so deadline comparisons are exact"]
    chk.replay_behaviours(num=500 if not chk.thorough else 6000)
    return chk.finish(rule="MC: every limit value x deadline position x outcome sequence; TV: infeasible and unbounded families with "
                           "iteration limits 0..12 and virtual deadlines")
