"""C08 stopping early returns exactly a prefix of the unlimited run."""
import numpy as np

from harness.checklib import Check
from harness import gen
from pygradflow.params import StepControlType


def groups(n, seed):
    rng = np.random.default_rng(seed)
    gs = []
    for i in range(n):
        fam = i % 4
        if fam == 0:
            ps = ("repo", ["hs71", "hs71c", "tame", "rosenbrock"][(i // 4) % 4])
        elif fam == 1:
            ps = ("boxdomain", int(rng.integers(0, 2 ** 31)), int(rng.integers(2, 5)), int(rng.integers(0, 3)), {})
        else:
            ps = ("convex_qp", int(rng.integers(0, 2 ** 31)), int(rng.integers(2, 6)), int(rng.integers(0, 4)),
                  {"quad_rows": bool(fam == 3)})
        pk = gen.random_params(rng, iteration_limit=24)
        if i % 2 == 0:
            pk["step_control_type"] = StepControlType.Exact          # the controller with inner clock reads
        if i % 5 == 0:
            pk["lamb_max"] = float(2.0 ** rng.integers(1, 6))        # lamb_max within reach of a doubling
        runs = [{"prob": ps, "params": dict(pk), "run": "A", "twin": "C08"}]
        for rn in ("B", "C", "D"):
            q = dict(pk)
            if rng.uniform() < 0.5:
                q["iteration_limit"] = int(rng.integers(1, 14))
            else:
                q["time_limit"] = float(rng.integers(1, 90))         # expires exactly at that read (unit ticks)
            runs.append({"prob": ps, "params": q, "run": rn, "twin": "C08"})
        gs.append({"tag": "C08", "runs": runs})
    # filter policies veto steps after the controller accepted them: limits placed around / after the vetoes
    from pygradflow.params import PenaltyUpdate
    for i in range(12 if n > 100 else 4):
        ps = ("repo", ["hs71", "hs71c"][i % 2])
        pk = dict(penalty_update=[PenaltyUpdate.ObjectiveFilter, PenaltyUpdate.LagrangianFilter][(i // 2) % 2], iteration_limit=40,
                  display_interval=1e9)
        runs = [{"prob": ps, "params": dict(pk), "run": "A", "twin": "C08"}]
        for rn in ("B", "C", "D"):
            runs.append({"prob": ps, "params": dict(pk, iteration_limit=int(rng.integers(8, 24))), "run": rn, "twin": "C08"})
        gs.append({"tag": "C08.filterveto", "runs": runs})
    # deadline inside the Newton loop of the exact controller while one doubling reaches lamb_max
    probs = [("repo", "tame")] + [("convex_qp", 1000 + k, 3, 1, {}) for k in range(6 if n > 100 else 2)]
    for ps in probs:
        for j0 in (1, 4, 7):
            pk = dict(step_control_type=StepControlType.Exact, lamb_max=2.0, iteration_limit=16, display_interval=1e9)
            runs = [{"prob": ps, "params": dict(pk), "run": "A", "twin": "C08"}]
            for rn, j in zip(("B", "C", "D"), (j0, j0 + 1, j0 + 2)):
                runs.append({"prob": ps, "params": dict(pk, time_limit=float(j)), "run": rn, "twin": "C08"})
            gs.append({"tag": "C08.lambmax", "runs": runs})
    # objective undefined outside a domain (its derivative formulas stay finite): accepted points that cannot be evaluated are
    # turned into rejections by the post-step validation -- also when the deadline passes during that very step
    for i in range(10 if n > 100 else 4):
        ps = ("logdomain", int(rng.integers(0, 2 ** 31)), int(rng.integers(1, 4)), bool(i % 2))
        ctl = [StepControlType.Fixed, StepControlType.DistanceRatio, StepControlType.Exact, StepControlType.ResiduumRatio][i % 4]
        pk = dict(step_control_type=ctl, lamb_init=float(10.0 ** rng.uniform(-3, -1)), iteration_limit=14, display_interval=1e9)
        for j0 in ((1, 4, 7, 10, 13) if n > 100 else (1, 4, 7)):
            runs = [{"prob": ps, "params": dict(pk), "run": "A", "twin": "C08"}]
            for rn, j in zip(("B", "C", "D"), (j0, j0 + 1, j0 + 2)):
                runs.append({"prob": ps, "params": dict(pk, time_limit=float(j)), "run": rn, "twin": "C08"})
            gs.append({"tag": "C08.domain", "runs": runs})
    return gs


def main():
    chk = Check("C08")
    chk.mc("GF_twin_stop.cfg" if chk.thorough else "GF_q_twin_stop.cfg")
    chk.mc("GF_deadline.cfg" if chk.thorough else "GF_q_deadline.cfg")
    # witness: with the pre-fix behaviour (deadline abort doubles lamb) the model must violate the clause
    chk.mc("GF_w_F8.cfg", must_violate="NoViolation")
    chk.tv(groups(500 if chk.thorough else 40, chk.seed), "C08 twins")
    chk.assumptions += ["virtual clock: one unit tick per read, so `time_limit = j` expires exactly at a chosen read",
                        "the problem callbacks are deterministic functions of their arguments"]
    chk.replay_behaviours(num=500 if not chk.thorough else 6000)
    return chk.finish(rule="self-composition MC (reference run A, limited run B, shared oracle) over every limit and every deadline "
                           "position incl. reads inside the Newton loop; TV of real tuples (A unlimited, B/C/D limited) with shared "
                           "interning: equal trial queries must give bit-identical answers")
