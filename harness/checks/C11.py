"""C11 caller-owned data is never modified; cached callback results are safe."""
import numpy as np

from harness.checklib import Check
from harness import gen
from pygradflow.params import Precision, ScalingType


def groups(n, seed):
    rng = np.random.default_rng(seed)
    gs = []
    fmts = ("coo", "csr", "csc")
    for i in range(n):
        kinds = [["eq0"], ["eq"], ["lower"], ["ranged"], ["eq", "upper"], ["eq0", "ranged", "lower"]][i % 6]
        ps = ("convex_qp", int(rng.integers(0, 2 ** 31)), int(rng.integers(3, 6)), len(kinds),
              {"fmt": fmts[i % 3], "row_kinds": kinds, "quad_rows": bool((i // 3) % 2)})
        pk = gen.random_params(rng, iteration_limit=15)
        if i % 7 == 0:
            pk["precision"] = Precision.Single
        if i % 5 == 0:
            pk["validate_input"] = False
        extra = {}
        sc = (i // 6) % 3
        if sc == 1:
            extra["scaling"] = ("random", int(rng.integers(0, 2 ** 31)), 2)
        elif sc == 2:
            pk["scaling_type"] = ScalingType.GradJac
        runs = [dict({"prob": ps, "params": pk, "run": "A", "twin": "C11", "policy": "fresh"}, **extra),
                dict({"prob": ps, "params": pk, "run": "B", "twin": "C11", "policy": "memo"}, **extra)]
        gs.append({"tag": "C11", "runs": runs})
    # the one solve path that asks the step function for its generalised Jacobian (Globalized Newton's merit gradient): equality
    # rows only (the callback's matrix reaches the iterate unwrapped), bounded variables (non-empty active sets), no scaling
    from pygradflow.params import NewtonType
    for i in range(max(6, n // 9)):
        kinds = [["eq0"], ["eq"], ["eq", "eq0"]][i % 3]
        nv = int(rng.integers(3, 6))
        ps = ("convex_qp", int(rng.integers(0, 2 ** 31)), nv, len(kinds),
              {"fmt": fmts[i % 3], "row_kinds": kinds, "var_kinds": [["boxed", "lower", "upper"][(i + j) % 3] for j in range(nv)]})
        pk = gen.random_params(rng, iteration_limit=15, newton_type=NewtonType.Globalized, step_solver_type=gen.STEPSOLVERS[i % 4],
                               lamb_init=float(10.0 ** rng.uniform(-3, 0)))
        gs.append({"tag": "C11.globalized", "runs": [
            {"prob": ps, "params": pk, "run": "A", "twin": "C11", "policy": "fresh", "x0_on_bounds": bool(i % 2)},
            {"prob": ps, "params": pk, "run": "B", "twin": "C11", "policy": "memo", "x0_on_bounds": bool(i % 2)}]})
    return gs


def main():
    chk = Check("C11")
    chk.mc("GF_twin_hist.cfg" if chk.thorough else "GF_q_twin_hist.cfg")
    chk.tv(groups(600 if chk.thorough else 54, chk.seed), "C11 twins")
    chk.assumptions += ["value digests of x0, y0, bounds, scaling weights and every object handed out by a callback are re-checked at "
                        "every later callback call and at return (memo policy: all objects; fresh policy: the six most recent)"]
    return chk.finish(rule="TV: twin real solves (callbacks return fresh objects vs memoised objects) over sparse formats x row kinds x "
                           "scalings x precision; every Eval/Return/Raise event carries the set of caller-owned objects whose value changed")
