-------------------------- MODULE IntegrationTrace --------------------------
(***************************************************************************)
(* Trace validation of IntegrationSolver.solve against IntegrationLoop:    *)
(* each recorded event determines the next state; the step must be a step  *)
(* of IntegrationLoop!Next, and the property clauses are evaluated on the  *)
(* way (Optimal only via residuum <= tol or a Converged event; iteration   *)
(* bound; user-level KKT conditions of an Optimal result).                 *)
(***************************************************************************)
EXTENDS IntegrationLoop, KKTAbs, Json, IOUtils, TLC, TLCExt, Sequences

Tr == ndJsonDeserialize(IOEnv.IG_TRACE)
VARIABLES i, lastres, known
tvars == <<pc, iter, lev, status, why, dl, free, last, i, lastres, known>>
Note(t, n) == TLCSet(1, Append(TLCGet(1), <<i, t, n>>))
Chk(t, n, F) == IF F THEN TRUE ELSE Note(t, n)
E == Tr[i]
SetOf(s) == {s[k] : k \in 1..Len(s)}

TInit == TLCSet(1, <<>>) /\ TLCSet(2, 0) /\ i = 1 /\ lastres = FALSE /\ known = FALSE
         /\ pc = "Top" /\ iter = 0 /\ lev = 0 /\ status = "none" /\ why = "none" /\ dl = FALSE
         /\ free = {} /\ last = NoEvent

Reset == /\ E.ev = "Reset"
         /\ pc' = "Top" /\ iter' = 0 /\ lev' = 0 /\ status' = "none" /\ why' = "none" /\ dl' = FALSE /\ lastres' = FALSE
         /\ free' = {} /\ last' = NoEvent /\ known' = FALSE

(* loop top: the free set the loop works with (the code re-derives it here and asserts equality), the residuum test *)
(* and, if it fails, the other termination tests.  `known` says whether the model already predicts the free set:   *)
(* not at the first top (create_filter at the start point) and not after a penalty update (recomputed).            *)
TopEv == /\ E.ev = "Top"
         /\ lastres' = E.resLe
         /\ dl' = E.expired
         /\ iter' = iter /\ lev' = lev /\ last' = last
         /\ free' = SetOf(E.free) /\ known' = TRUE
         /\ status' = E.status
         /\ why' = (CASE E.status = "Optimal" -> "residuum" [] E.status = "TimeLimit" -> "deadline"
                      [] E.status = "LocallyInfeasible" -> "infeasible" [] E.status = "Unbounded" -> "objlimit" [] OTHER -> why)
         /\ pc' = IF E.status = "none" THEN "Integrate" ELSE "Done"
         /\ Chk("M", "top.pc", pc = "Top")
         /\ Chk("P:C01", "optimal.iff.residuum", (E.status = "Optimal") <=> E.resLe)
         /\ Chk("M", "top.is.spec.step", pc # "Top" \/ E.status \in {"TimeLimit"} \/ TopCtl)
         /\ Chk("M", "free.carried", known => SetOf(E.free) = free)
         /\ Chk("M", "free.oracle", E.filterOK)
         /\ Chk("M", "top.inbox", E.inBox)

IntegrateEv ==
         /\ E.ev = "Integrate"
         /\ iter' = iter + 1
         /\ lev' = IF E.result = "Penalty" /\ lev < MaxRhoLev THEN lev + 1 ELSE lev
         /\ dl' = dl /\ lastres' = lastres
         /\ last' = [res |-> E.result, trig |-> E.trig, j |-> E.j]
         /\ free' = (CASE E.result = "Event" -> Flip(free, E.j)
                       [] E.result = "Penalty" -> SetOf(E.freeAfter)
                       [] OTHER -> free)
         /\ known' = (E.result # "Penalty")          \* after a penalty update the set is recomputed for the new penalty
         /\ status' = (IF E.result = "Converged" THEN "Optimal" ELSE IF E.result = "Unbounded" THEN "Unbounded"
                       ELSE IF E.limitHit THEN "IterationLimit" ELSE "none")
         /\ why' = (IF E.result = "Converged" THEN "converged" ELSE IF E.result = "Unbounded" THEN "event"
                    ELSE IF E.limitHit THEN "limit" ELSE why)
         /\ pc' = IF status' = "none" THEN "Top" ELSE "Done"
         /\ Chk("M", "integrate.pc", pc = "Integrate")
         /\ Chk("M", "event.trigger", E.result = "Event" <=> E.trig \in {"LB", "UB", "GRAD_FIXED"})
         /\ Chk("M", "event.trigger.side", E.result = "Event" => TrigOK(free, E.trig, E.j))
         /\ Chk("M", "event.flips.one", E.result = "Event" => SetOf(E.freeAfter) = Flip(free, E.j))
         /\ Chk("M", "nonevent.keeps.free", E.result \notin {"Event", "Penalty"} => SetOf(E.freeAfter) = free)
         /\ Chk("M", "penalty.times.ten", E.rhoMul = (IF E.result = "Penalty" THEN "x10" ELSE "same"))
         /\ Chk("M", "first.deciding.event", E.decided = E.firstDeciding)
         /\ Chk("M", "time.forward", E.tFwd)
         /\ Chk("M", "pinned.kept", E.pinnedKept)
         /\ Chk("P:C01", "next.inbox", E.inBox)

ReturnEv ==
         /\ E.ev = "Return"
         /\ UNCHANGED <<pc, iter, lev, status, why, dl, lastres, free, last, known>>
         /\ Chk("M", "return.status", E.status = status)
         /\ Chk("P:C01", "optimal.only.if.converged", E.status = "Optimal" => why \in {"residuum", "converged"})
         /\ Chk("P:C01", "return.kkt", E.status = "Optimal" => UserKKT(E.kkt))
         /\ Chk("P:C02", "iterations", E.iterations = iter)
         /\ Chk("P:C02", "iterbound", E.limit >= 0 => E.iterations <= E.limit)
         /\ Chk("P:C02", "iterlimit.only.at.limit", E.status = "IterationLimit" => E.iterations = E.limit)
         /\ Chk("P:C06", "finite", E.finite)
         /\ Chk("M", "path.iff.collect", E.path.has = E.collectPath)
         /\ Chk("M", "path.shape", E.path.shapeOK)
         /\ Chk("M", "path.times.monotone", E.path.timesMonotone /\ E.path.startsAtZero)
         /\ Chk("M", "path.ends.at.last.point", E.path.endsAtLast)

TNext == /\ i <= Len(Tr)
         /\ TLCSet(2, i)
         /\ (Reset \/ TopEv \/ IntegrateEv \/ ReturnEv)
         /\ i' = i + 1
TSpec == TInit /\ [][TNext]_tvars
TDone == PrintT(<<"GFLAST", TLCGet(2), Len(Tr)>>) /\ PrintT(<<"GFNOTES", TLCGet(1)>>)
=============================================================================
