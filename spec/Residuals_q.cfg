SPECIFICATION Spec
CONSTANTS
  Dats = {1, 2}
  Xs <- Xq
  Ys <- Yq
  Xhats <- Hq
  Lambs = {1, 2}
  Rhos = {1, 2}
  Boxes <- Bq
INVARIANT C13_GradIsDerivative
INVARIANT C13_HessIsDerivative
INVARIANT C13_DualDerivative
INVARIANT C13_ImplicitDerivIsJacobian
INVARIANT C13_DualRows
INVARIANT C13_ProjectionInBox
INVARIANT C13_ProjectionIdentityOffActive
INVARIANT C13_StationarityIsNormalCone
INVARIANT C13_BoundsDualSign
INVARIANT C13_LocalInfeasIsStationarity
CHECK_DEADLOCK FALSE
