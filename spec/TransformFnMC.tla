--------------------------- MODULE TransformFnMC ---------------------------
EXTENDS TransformFn
Wq == {-1, 0, 1}
Wf == {-2, -1, 0, 1}
Kq == {"eq0", "eq", "lower", "ranged", "narrow", "free"}    \* narrow: a genuine range of small relative width (2^20 .. 2^20 + 1)
Kf == {"eq0", "eq", "lower", "upper", "ranged", "narrow", "free"}
Pq == {<<1, -2>>, <<4, 6>>}
Pf == {<<1, -2>>, <<4, 6>>, <<0, 0>>, <<-3, 2>>}
Mq == {<<2, -1>>}
Mf == {<<2, -1>>, <<0, 4>>}
Dq == {1, 2}
=============================================================================
